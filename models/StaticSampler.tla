---------------------------- MODULE StaticSampler ----------------------------
(* The documented protocol of torchphysics' StaticSampler, independent of its code:
   "resample_interval = r will use the same points for r iterations and then sample a
   new batch that will be used for the next r iterations".
   cached  : ticket (1,2,...) of the point set currently held, 0 = none yet
   uses    : how many times the held set has been handed out by sample_points
   interval: current resample interval (INF stands for math.inf)
   fresh   : number of fresh draws made from the wrapped sampler so far
   last    : ticket returned by the last call (0 = no call yet / make_static)
   The complete reachable graph for histories of length <= MaxSteps is dumped by TLC and
   every edge is replayed against the real class (tpmc/props/c15.py). *)
EXTENDS Naturals
CONSTANTS Intervals, MaxSteps
VARIABLES cached, uses, interval, fresh, last, steps

vars == <<cached, uses, interval, fresh, last, steps>>

Init == /\ cached = 0 /\ uses = 0 /\ fresh = 0 /\ last = 0 /\ steps = 0
        /\ interval \in Intervals

Draw == /\ fresh' = fresh + 1 /\ cached' = fresh + 1 /\ last' = fresh + 1 /\ uses' = 1

Sample == /\ steps < MaxSteps
          /\ IF cached # 0 /\ uses < interval
             THEN /\ last' = cached /\ uses' = uses + 1 /\ UNCHANGED <<cached, fresh>>
             ELSE Draw
          /\ steps' = steps + 1 /\ UNCHANGED interval

(* next(sampler): hands out the held set without counting it as an iteration *)
NextItem == /\ steps < MaxSteps
            /\ IF cached # 0
               THEN /\ last' = cached /\ UNCHANGED <<cached, uses, fresh>>
               ELSE Draw
            /\ steps' = steps + 1 /\ UNCHANGED interval

MakeStatic(r) == /\ steps < MaxSteps
                 /\ interval' = r /\ last' = 0
                 /\ steps' = steps + 1 /\ UNCHANGED <<cached, uses, fresh>>

Next == Sample \/ NextItem \/ \E r \in Intervals : MakeStatic(r)

Spec == Init /\ [][Next]_vars

(* a held set is never handed out more often than the interval in force when it is handed out *)
TypeOK == /\ cached \in 0..MaxSteps /\ fresh \in 0..MaxSteps /\ uses \in 0..MaxSteps
          /\ cached <= fresh /\ (cached = 0) = (fresh = 0)
FreshIsNewest == cached = fresh
=============================================================================
