CONSTANTS
  Intervals = {1, 2, 3, 99}
  MaxSteps = 6
INIT Init
NEXT Next
INVARIANT TypeOK
INVARIANT FreshIsNewest
