import sys
pid=sys.argv[1].lower()
import json
rnd = sys.argv[2] if len(sys.argv) > 2 else '2'
mut = 'mut%s' % rnd
used = json.load(open('/verif/tools/used_sites.json')).get(pid.upper(), []) if rnd in ('3','4','5') else []
extra = ('\n\nThis is in fact a LATER round (third or fourth). The following sites (file :: enclosing function) have ALREADY been used for this property in earlier rounds; choose DIFFERENT functions and different kinds of mistakes:\n' + '\n'.join('  - ' + u for u in used) + '\nAlso consider: code shared with other features (helpers in domain.py, sampler_base.py, user_fun.py, points.py, model.py), 3-D domains (sphere, TrimeshPolyhedron), products of domains with external parameters, adaptive samplers driven by conditions, function sets and their sums, DeepONet/FNO variants, data loaders with unusual sizes, anything stateful across calls.\n') if rnd in ('3','4','5') else ''
for l in open('/verif/properties.jsonl'):
    p=json.loads(l)
    if p['id'].lower()==pid:
        prop="%s — %s\n\nSTATEMENT: %s\n\nQUANTIFIER: %s\n\nWHY TESTS CAN'T SETTLE IT: %s\n\nANCHOR FILES: %s\n" % (p['id'],p['title'],p['statement'],p['quantifier']['text'],p['why_tests_cant'],', '.join(p['anchors']['files']))
print(f"""You are helping to evaluate a verification harness by producing realistic, subtle bugs ("mutants") for a Python library, torchphysics (a PyTorch library for physics-informed neural networks). You work ONLY inside the scratch git worktree /tmp/wt_{pid} (a checkout of the library; source under /tmp/wt_{pid}/src/torchphysics, tests under /tmp/wt_{pid}/tests). Do NOT read or touch /repo or /verif, and do not use any network.

IMPORTANT environment facts:
- Use the interpreter /venv/bin/python. The package is installed in editable mode pointing at another checkout, so you MUST set PYTHONPATH=/tmp/wt_{pid}/src for every python/pytest command so that YOUR worktree's sources are imported (verify once with: PYTHONPATH=/tmp/wt_{pid}/src /venv/bin/python -c "import torchphysics; print(torchphysics.__file__)").
- Run the test suite with: cd /tmp/wt_{pid} && PYTHONPATH=/tmp/wt_{pid}/src /venv/bin/python -m pytest -q -p no:cacheprovider --timeout=900 -x -q 2>&1 | tail -15   (about 1 minute; drop -x to see all failures). Three plotting/animation tests (contour animation) fail already on the clean tree — run the suite once on the clean tree first to learn the baseline failures; "passing the existing tests" means: no failure that is not in that baseline.

Here is a semantic property of the library that is supposed to hold:

{prop}

YOUR TASK: produce 3 DIFFERENT source changes (mutants) to the library, each of which BREAKS this property while still importing fine and passing the existing test suite (no new failures vs. the clean baseline). This is a SECOND round: the most obvious single-line mutation sites (a flipped sign or comparison in the central function of the property, a dropped flag in a __call__, an off-by-one in the main loop) have already been used, so look for LESS-TRAVELLED code paths: rarely used arguments and optional features, boundary variants, nested compositions, interactions of two features, state carried between calls, helper functions several modules away from the anchor files, and edge values (n=1, empty, size-one dimensions, equal/tied values). Prefer realistic mistakes a developer could make (off-by-one, wrong axis, swapped operands, stale cache, wrong row pairing, forgotten case, sign, wrong variable reused, tolerance, wrong order of operations), in DIFFERENT functions/files for the 3 mutants. Prefer changes that need something specific to manifest — an unusual input (non-axis-aligned / shifted / parameter-dependent shape, particular count n or number of parameter rows, particular combination of operations), a multi-step sequence of calls, or two cooperating sites — rather than ones that any ordinary use exposes at once. Each mutant must be a small patch (a few lines).

For each mutant k in 1..3 create the directory /tmp/{mut}_{pid}/k/ containing:
  - patch.diff : output of `git -C /tmp/wt_{pid} diff` for that mutant alone (must apply to the clean worktree with `git -C /tmp/wt_{pid} apply patch.diff`);
  - demo.py : a small stand-alone program (imports torch/torchphysics only) that exits with status 0 on the clean tree and with a non-zero status (assert failure) on the mutated tree, demonstrating the property violation through public API behaviour; run it as `PYTHONPATH=/tmp/wt_{pid}/src /venv/bin/python demo.py`. It must be deterministic (seed torch if it samples) and must check the property itself (e.g. by an independent computation), not internal identifiers;
  - notes.md : which property it breaks, what it needs in order to manifest, and the exact commands you ran with their results (test suite with the mutant: pass/fail summary; demo with and without the mutant).
Verify all of that yourself: with the patch applied run the full test suite and the demo; with the patch reverted (`git -C /tmp/wt_{pid} checkout -- .`) run the demo again. NEVER use `git stash` (the stash is shared between all worktrees of the repository and other agents work in sibling worktrees): keep your change in a patch file and use `git apply` / `git checkout -- .` only. Keep only mutants for which everything holds; if one fails the existing tests, replace it by another. Work on one mutant at a time and ALWAYS leave the worktree clean (git checkout -- .) before starting the next one and at the end.

{extra}
Final answer: a short list of the mutants you kept (directory, one-line description, what it needs to manifest).""")
