#!/bin/bash
# usage: tools/seeded_run.sh [seed ids...]   -- apply every seeded change to /repo, run the checks named in its meta.json
# (quick tier), revert, and write seeded/REPORT.md.  /repo must be clean.  Nothing is committed in /repo.
cd /verif
if ! git -C /repo diff --quiet; then echo "/repo working tree is dirty"; exit 2; fi
ids="$@"; [ -z "$ids" ] && ids=$(ls seeded | grep -v REPORT)
out=seeded/REPORT.md
echo "| seeded change | property | checks run | result |" > $out.tmp
echo "|---|---|---|---|" >> $out.tmp
for sid in $ids; do
  d=/verif/seeded/$sid
  [ -f $d/patch.diff ] || continue
  checks=$(python3 -c "import json;m=json.load(open('$d/meta.json'));print(' '.join(c for c in m.get('checks_expected_to_catch',[]) if c!='none'))")
  prop=$(python3 -c "import json;print(json.load(open('$d/meta.json'))['property'])")
  if ! git -C /repo apply --check $d/patch.diff 2>/dev/null; then echo "| $sid | $prop | - | PATCH DOES NOT APPLY to current /repo |" >> $out.tmp; echo "$sid: patch does not apply"; continue; fi
  git -C /repo apply $d/patch.diff
  res=""
  for c in $checks; do
    ./check $c --tier quick > /tmp/seeded_$sid_$c.log 2>&1; rc=$?
    n=$(grep -c '^VIOLATION' /tmp/seeded_$sid_$c.log)
    res="$res $c:exit=$rc/violations=$n"
  done
  git -C /repo checkout -- .
  [ -z "$checks" ] && res="(no check claims it, see meta.json)"
  echo "| $sid | $prop | $checks | $res |" >> $out.tmp
  echo "$sid: $res"
done
mv $out.tmp $out
