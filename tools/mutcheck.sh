#!/bin/bash
# usage: tools/mutcheck.sh <patch.diff> <ID> [<ID> ...]   -- apply a patch to /repo, run quick checks, revert
patch="$1"; shift
cd /verif
if ! git -C /repo diff --quiet; then echo "/repo working tree is dirty"; exit 2; fi
git -C /repo apply "$patch" || { echo "patch does not apply"; exit 2; }
for id in "$@"; do
  ./check "$id" --tier "${TIER:-quick}" > "/tmp/mutcheck_$id.log" 2>&1
  rc=$?
  echo "$id exit=$rc violations=$(grep -c '^VIOLATION' /tmp/mutcheck_$id.log) :: $(grep -m2 '^  C' /tmp/mutcheck_$id.log | cut -c1-200 | tr '\n' ' ')"
done
git -C /repo checkout -- .
