#!/bin/bash
# usage: tools/seed_confirm.sh <mutant_dir> <seed_id> <property> <checks...>
# Confirms a candidate change independently (scratch worktree of /repo HEAD outside /repo and /verif):
#   tests still pass (no failure outside the baseline failures), demo passes without / fails with the change;
# then stores it under /verif/seeded/<seed_id>/ with meta.json.  The worktree is removed afterwards.
set -u
src="$1"; sid="$2"; prop="$3"; shift 3
wt=/tmp/wt_confirm_$sid
git -C /repo worktree remove --force "$wt" >/dev/null 2>&1
git -C /repo worktree add -q --detach "$wt" HEAD || exit 2
export PYTHONPATH="$wt/src"
cd "$wt"
demo_clean=$( /venv/bin/python -W ignore "$src/demo.py" >/dev/null 2>&1; echo $? )
if ! git apply "$src/patch.diff"; then echo "$sid: patch does not apply to HEAD"; git -C /repo worktree remove --force "$wt"; exit 3; fi
demo_mut=$( /venv/bin/python -W ignore "$src/demo.py" >/dev/null 2>&1; echo $? )
/venv/bin/python -m pytest -q -p no:cacheprovider --timeout=900 -q > /tmp/confirm_tests_$sid.txt 2>&1
fails=$( grep -E "^FAILED|^ERROR" /tmp/confirm_tests_$sid.txt | grep -v "test_2d_contour_animation" | wc -l )
summary=$( tail -1 /tmp/confirm_tests_$sid.txt )
cd /verif
git -C /repo worktree remove --force "$wt"
echo "$sid: demo_clean=$demo_clean demo_mutant=$demo_mut new_test_failures=$fails :: $summary"
if [ "$demo_clean" = "0" ] && [ "$demo_mut" != "0" ] && [ "$fails" = "0" ]; then
  mkdir -p /verif/seeded/$sid
  cp "$src/patch.diff" "$src/demo.py" /verif/seeded/$sid/
  [ -f "$src/notes.md" ] && cp "$src/notes.md" /verif/seeded/$sid/
  python3 - "$sid" "$prop" "$demo_clean" "$demo_mut" "$summary" "$@" <<'PY'
import json,sys,re
sid,prop,dc,dm,summary=sys.argv[1:6]
notes=''
try: notes=open('/verif/seeded/%s/notes.md'%sid).read()
except Exception: pass
m=re.search(r'(?is)needs?[^\n]*manifest[^\n]*\n(.{0,600})',notes)
json.dump({"id":sid,"property":prop,"needs_to_manifest":(m.group(0).strip()[:700] if m else "see notes.md"),
  "confirmed":{"demo_exit_clean":int(dc),"demo_exit_with_change":int(dm),"test_suite_with_change":summary,
               "how":"tools/seed_confirm.sh: scratch worktree of /repo HEAD, PYTHONPATH=<worktree>/src; full pytest run, failures other than the 3 baseline contour-animation tests counted"},
  "checks_expected_to_catch":sys.argv[6:]},open('/verif/seeded/%s/meta.json'%sid,'w'),indent=1)
PY
  echo "$sid: stored"
else
  echo "$sid: NOT stored"
fi
