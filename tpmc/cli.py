"""./check <ID> --tier quick|thorough [--replay file]

Driver protocol (tpmc/props/cXX.py):
    PROP, LEVEL ('model_checking' | ...), TECHNIQUE, ASSUMPTIONS (list)
    items(tier) -> list of JSON-able work items (each with a 'name')
    run_item(item) -> {'evals': int, 'states': [hashable...] | int, 'transitions': int,
                       'traces': int, 'outcomes': [str...], 'violations': [ {key, what, detail} ],
                       'rejected': int, 'samples': [..]}
    optional: finish(results, tier) -> extra dict merged into coverage / extra violations
"""
import argparse
import hashlib
import importlib
import json
import os
import random
import sys
import time

HOME = os.environ.get("TPMC_HOME", os.path.dirname(os.path.dirname(os.path.abspath(__file__))))
REPO = os.environ.get("TPMC_REPO", "/repo")


def load_known():
    path = os.path.join(HOME, "known_findings.jsonl")
    out = []
    if os.path.exists(path):
        for line in open(path):
            line = line.strip()
            if line and not line.startswith("#"):
                out.append(json.loads(line))
    return out


def jdefault(o):
    try:
        import numpy as np
        import torch
        if isinstance(o, torch.Tensor):
            return o.tolist()
        if isinstance(o, np.ndarray):
            return o.tolist()
        if isinstance(o, (np.integer,)):
            return int(o)
        if isinstance(o, (np.floating,)):
            return float(o)
        if isinstance(o, (np.bool_,)):
            return bool(o)
    except Exception:
        pass
    if isinstance(o, (set, frozenset)):
        return sorted(o, key=str)
    return repr(o)


def main(argv=None):
    ap = argparse.ArgumentParser()
    ap.add_argument("prop")
    ap.add_argument("--tier", default=os.environ.get("VERIF_TIER", "quick"), choices=["quick", "thorough"])
    ap.add_argument("--replay", default=None)
    ap.add_argument("--workers", type=int, default=None)
    ap.add_argument("--only", default=None, help="substring filter on item names (debugging; evidence marks it)")
    args = ap.parse_args(argv)
    pid = args.prop.upper()
    seed = int(os.environ.get("VERIF_SEED", "0") or 0)
    t0 = time.time()

    import torch
    torch.set_num_threads(1)
    import torchphysics
    src = os.path.realpath(torchphysics.__file__)
    if not src.startswith(os.path.realpath(REPO) + os.sep):
        print("FATAL: torchphysics imported from %s, not from %s" % (src, REPO))
        return 2

    modname = "tpmc.props.%s" % pid.lower()
    mod = importlib.import_module(modname)

    from tpmc.kernel import pool

    if args.replay:
        rp = json.load(open(args.replay))
        res = pool.run_items(modname, [rp["item"]], workers=1)
        hit = [v for v in res[0].get("violations", []) if v["key"] == rp["key"]]
        for v in res[0].get("violations", []):
            print("replayed:", v["key"], "-", v["what"])
        if hit:
            print("VIOLATION property=%s replay=%s" % (pid, args.replay))
            return 1
        print("replay did not reproduce key %s" % rp["key"])
        return 0

    items = mod.items(args.tier)
    if args.only:
        items = [it for it in items if args.only in it.get("name", "")]
    order = list(range(len(items)))
    random.Random(seed).shuffle(order)          # the seed changes the visiting order only
    items = [items[i] for i in order]
    items.sort(key=lambda it: -it.get("cost", 0))   # stable: heavy items first (load balance only)
    limit = getattr(mod, "ITEM_LIMIT", {}).get(args.tier) if isinstance(getattr(mod, "ITEM_LIMIT", None), dict) else getattr(mod, "ITEM_LIMIT", None)
    results = pool.run_items(modname, items, workers=args.workers, limit=limit)

    evals = transitions = traces = rejected = 0
    states = set()
    nstates = 0
    outcomes = set()
    samples = []
    viols = {}
    extra = {}
    for it, r in zip(items, results):
        evals += r.get("evals", 0)
        transitions += r.get("transitions", 0)
        traces += r.get("traces", 0)
        rejected += r.get("rejected", 0)
        st = r.get("states", ())
        if isinstance(st, int):
            nstates += st
        else:
            states.update(st)
        outcomes.update(r.get("outcomes", ()))
        samples.extend(r.get("samples", ())[:2])
        for k, v in r.get("extra", {}).items():
            extra[k] = extra.get(k, 0) + v
        for v in r.get("violations", ()):
            slot = viols.setdefault(v["key"], {"first": v, "count": 0, "item": it})
            slot["count"] += 1
    if hasattr(mod, "finish"):
        fin = mod.finish(results, args.tier) or {}
        for v in fin.pop("violations", ()):
            slot = viols.setdefault(v["key"], {"first": v, "count": 0, "item": v.get("item", {"name": "finish"})})
            slot["count"] += 1
        extra.update(fin)
    nstates += len(states)

    known = [k for k in load_known() if k["property"] == pid]
    open_keys = {k["key"]: k for k in known if k.get("status") == "open"}
    new, listed = [], []
    for key in sorted(viols):
        (listed if key in open_keys else new).append(key)
    for key in listed:
        print("KNOWN-FINDING: property=%s %s [%s; %d occurrence(s) this run]" % (
            pid, open_keys[key]["what"], key, viols[key]["count"]))
    os.makedirs(os.path.join(HOME, "replays"), exist_ok=True)
    for key in new:
        v = viols[key]
        h = hashlib.sha1(key.encode()).hexdigest()[:10]
        path = os.path.join(HOME, "replays", "%s-%s.json" % (pid, h))
        json.dump({"property": pid, "key": key, "what": v["first"]["what"], "count": v["count"],
                   "item": v["item"], "detail": v["first"].get("detail")},
                  open(path, "w"), indent=1, default=jdefault)
        print("  %s x%d: %s" % (key, v["count"], v["first"]["what"]))
        print("VIOLATION property=%s replay=%s" % (pid, path))

    rnd = random.Random(seed)
    if len(samples) > 8:
        samples = rnd.sample(samples, 8)
    wall = time.time() - t0
    cov = {
        "states": nstates, "transitions": transitions, "traces_validated_against_impl": traces or evals,
        "evaluations": evals, "distinct_nontrivial": len(outcomes),
        "rule": getattr(mod, "RULE", ""), "samples": samples or [it for it in items[:3]],
        "exhaustive": not args.only, "work_items": len(items), "deliberately_rejected_by_library": rejected,
        "bounds": getattr(mod, "BOUNDS", {}).get(args.tier, {}),
        "known_findings_seen": listed,
    }
    cov.update(extra)
    ev = {"property_id": pid, "tier": args.tier, "seed": seed, "level": mod.LEVEL, "coverage": cov,
          "assumptions": list(getattr(mod, "ASSUMPTIONS", [])), "wall_s": round(wall, 2),
          "violations": len(new)}
    os.makedirs(os.path.join(HOME, "evidence"), exist_ok=True)
    json.dump(ev, open(os.path.join(HOME, "evidence", "%s.json" % pid), "w"), indent=1, default=jdefault)
    print("%s %s: items=%d executions=%d states=%d transitions=%d distinct_outcomes=%d rejected=%d "
          "known=%d new_violations=%d wall=%.1fs" % (pid, args.tier, len(items), evals, nstates, transitions,
                                                      len(outcomes), rejected, len(listed), len(new), wall))
    if nstates < 1 or evals < 1 or len(outcomes) < 2:
        print("VIOLATION property=%s replay=none (vacuous exploration: nothing distinct was explored)" % pid)
        return 1
    return 1 if new else 0


if __name__ == "__main__":
    sys.exit(main())
