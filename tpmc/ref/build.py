"""build_tp(ast): the REAL torchphysics object for a DEL expression, through public constructors
and operators only.  Parameter-dependent shape parameters become generated Python functions whose
argument names are the parameter names (that is what the library inspects)."""
import numpy as np
import torch
import torchphysics as tp
from torchphysics.problem.domains.domainoperations.union import UnionDomain
from torchphysics.problem.domains.domainoperations.cut import CutDomain
from torchphysics.problem.domains.domainoperations.translate import Translate
from torchphysics.problem.domains.domainoperations.rotate import Rotate
from torchphysics.problem.domains.domain2D.shapely_polygon import ShapelyPolygon
from torchphysics.problem.spaces import Points, Space

from . import geom as G


def _vars_of(e):
    acc = set()
    G._aff_vars(e, acc)
    return sorted(acc)


def _scalar_src(e, base):
    """python source of a scalar expression; `base` is 0*(sum of all variables) and keeps the batch
    shape whichever of the variables are batches, scalars or already fixed defaults"""
    if G.is_aff(e):
        s = repr(float(e[1]))
        for v, c in e[2].items():
            s += " + %r*%s" % (float(c), v)
        return s + " + " + base
    return "%r + %s" % (float(e), base)


def param_fn(e):
    """number / list for constants, else a function of the named parameters"""
    vs = _vars_of(e)
    if not vs:
        if isinstance(e, list) and not G.is_aff(e):
            return [float(x[1]) if G.is_aff(x) else float(x) for x in e]
        return float(e[1]) if G.is_aff(e) else float(e)
    defaults = {}
    for x in (e if (isinstance(e, list) and not G.is_aff(e)) else [e]):
        if G.is_aff(x) and len(x) > 3:
            defaults.update(x[3])
    base = "0.0*(%s)" % " + ".join(vs)
    if isinstance(e, list) and not G.is_aff(e):
        body = "torch.column_stack((%s,))" % ", ".join("torch.as_tensor(%s)" % _scalar_src(x, base) for x in e)
    else:
        body = _scalar_src(e, base)
    sig = [v for v in vs if v not in defaults] + ["%s=%r" % (v, float(defaults[v])) for v in vs if v in defaults]
    src = "lambda %s: %s" % (", ".join(sig), body)
    fn = eval(src, {"torch": torch})
    fn.__name__ = "f_" + "_".join(vs)
    fn._src = src
    return fn


SPLIT_SUFFIX = ["", "_b", "_c"]


def matrix_fn(angle, axis):
    """3x3 rotation matrix about a coordinate axis: a constant nested list, or a function of the named parameters returning
    an (n, 3, 3) tensor"""
    import math
    i, j = {"z": (0, 1), "x": (1, 2), "y": (2, 0)}[axis]
    vs = _vars_of(angle)
    if not vs:
        al = float(angle[1]) if G.is_aff(angle) else float(angle)
        M = [[1.0 if r == c else 0.0 for c in range(3)] for r in range(3)]
        M[i][i], M[i][j], M[j][i], M[j][j] = math.cos(al), -math.sin(al), math.sin(al), math.cos(al)
        return M
    base = "0.0*(%s)" % " + ".join(vs)
    src = ("lambda %s: _rot3(torch.as_tensor(%s), %d, %d)" % (", ".join(vs), _scalar_src(angle, base), i, j))

    def _rot3(al, i, j):
        al = al.reshape(-1)
        M = torch.zeros(len(al), 3, 3, dtype=al.dtype)
        for r in range(3):
            M[:, r, r] = 1.0
        M[:, i, i], M[:, i, j], M[:, j, i], M[:, j, j] = torch.cos(al), -torch.sin(al), torch.sin(al), torch.cos(al)
        return M
    fn = eval(src, {"torch": torch, "_rot3": _rot3})
    fn._src = src
    return fn


def space_of(var, dim, split=False):
    """split: the same space as a product of ONE-dimensional variables (var, var_b, var_c)"""
    if split and dim > 1:
        return Space({var + SPLIT_SUFFIX[i]: 1 for i in range(dim)})
    return Space({var: dim})


def build_tp(a, split=False):
    k = a["k"]
    if k == "interval":
        return tp.domains.Interval(space_of(a["var"], 1, split), param_fn(a["a"]), param_fn(a["b"]))
    if k == "circle":
        return tp.domains.Circle(space_of(a["var"], 2, split), param_fn(a["c"]), param_fn(a["r"]))
    if k == "sphere":
        return tp.domains.Sphere(space_of(a["var"], 3, split), param_fn(a["c"]), param_fn(a["r"]))
    if k == "para":
        return tp.domains.Parallelogram(space_of(a["var"], 2, split), param_fn(a["o"]), param_fn(a["c1"]), param_fn(a["c2"]))
    if k == "tri":
        return tp.domains.Triangle(space_of(a["var"], 2, split), param_fn(a["o"]), param_fn(a["c1"]), param_fn(a["c2"]))
    if k == "poly":
        import shapely.geometry as sg
        if a["holes"]:
            return ShapelyPolygon(space_of(a["var"], 2, split), shapely_polygon=sg.Polygon(a["verts"], a["holes"]))
        return ShapelyPolygon(space_of(a["var"], 2, split), vertices=a["verts"])
    if k == "mesh":
        from . import poly3d
        assert a["var"] == "x"
        return poly3d.build(a["shape"], a["winding"], a["source"], space=space_of("x", 3, split))
    if k == "point":
        p = a["p"]
        dim = len(p) if isinstance(p, list) and not G.is_aff(p) else 1
        return tp.domains.Point(space_of(a["var"], dim, split), param_fn(p))
    if k == "union":
        A, Bd = build_tp(a["a"], split), build_tp(a["b"], split)
        return UnionDomain(A, Bd, disjoint=True) if a["disjoint"] else A + Bd
    if k == "cut":
        A, Bd = build_tp(a["a"], split), build_tp(a["b"], split)
        return CutDomain(A, Bd, contained=True) if a["contained"] else A - Bd
    if k == "inter":
        return build_tp(a["a"], split) & build_tp(a["b"], split)
    if k == "prod":
        return build_tp(a["a"], split) * build_tp(a["b"], split)
    if k == "translate":
        return Translate(build_tp(a["a"], split), param_fn(a["v"]))
    if k == "rotate" and a.get("axis"):
        around = None if a["around"] is None else param_fn(a["around"])
        return Rotate(build_tp(a["a"], split), rotation_matrix=matrix_fn(a["angle"], a["axis"]), rotate_around=around)
    if k == "rotate":
        around = None if a["around"] is None else param_fn(a["around"])
        return Rotate.from_angles(build_tp(a["a"], split), param_fn(a["angle"]), rotate_around=around)
    if k == "boundary":
        return build_tp(a["a"], split).boundary
    if k == "bleft":
        return build_tp(a["a"], split).boundary_left
    if k == "bright":
        return build_tp(a["a"], split).boundary_right
    raise ValueError(k)


def points_of(vals, order):
    """Points object from var -> array, in the given variable order; float32"""
    if not order:
        return Points.empty()
    cols = [torch.as_tensor(np.asarray(vals[v]), dtype=torch.float32).reshape(len(vals[v]), -1) for v in order]
    return Points(torch.cat(cols, dim=1), Space({v: c.shape[1] for v, c in zip(order, cols)}))


def params_points(rows):
    """rows: var -> list of values (one per parameter row) -> Points (k, #vars)"""
    if not rows:
        return Points.empty()
    order = sorted(rows)
    return points_of({v: np.asarray(rows[v], dtype=np.float64).reshape(-1, 1) for v in order}, order)


def to_vals(points, extra=None):
    """var -> float64 array from a Points object (and an optional extra Points)"""
    out = {}
    for p in (points, extra):
        if p is None or p.isempty:
            continue
        for v, t in p.coordinates.items():
            out[v] = t.detach().double().numpy().reshape(-1, t.shape[-1])
    return out
