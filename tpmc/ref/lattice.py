"""The finite alphabet of domain expressions (simplest first) shared by the geometric properties.
Shapes are in generic position (no two different leaves share a boundary segment) except where a
degenerate configuration is named explicitly, so that boundary questions have one answer."""
import functools
import numpy as np
from .geom import *  # noqa
from . import geom as G

TH = [0.0, 0.5, 1.0]          # parameter lattice

# ---- 2-D leaves ---------------------------------------------------------------------------
SQ = P([0, 0], [1, 0], [0, 1])
SQ_CW = P([0, 0], [0, 1], [1, 0])
SLP = P([0.3, 0.1], [1.7, 0.6], [-0.2, 1.3])
SLP_CW = P([0.3, 0.1], [-0.2, 1.3], [1.7, 0.6])
THIN = P([-1, -0.4], [3, 0.6], [-1.1, 0.0])
RECT = P([-0.5, 0.2], [1.5, 0.2], [-0.5, 0.7])
P_R60 = P([1.0, 0.5], [2.0, 2.2320508], [0.1339746, 1.0])      # 2x1 rectangle rotated by 60 degrees, given by its corners
C1 = C([0, 0], 1)
C2 = C([0.4, -0.3], 0.5)
C3 = C([3, -2], 0.7)
TR = T([0, 0], [1, 0], [0, 1])
TSL = T([0.3, 0.1], [1.7, 0.6], [-0.2, 1.3])
TCW = T([0, 0], [0, 1], [1, 0])
LSH = Poly([[0, 0], [2, 0], [2, 1], [1, 1], [1, 2], [0, 2]])
# square with a square hole; kept away from the origin (a sampler that leaves rows at (0,0) must not be excused)
HOLE = Poly([[0.5, 0.25], [3.5, 0.25], [3.5, 3.25], [0.5, 3.25]], holes=[[[1.5, 1.25], [2.5, 1.25], [2.5, 2.25], [1.5, 2.25]]])
# ... and with TWO holes (the edge bookkeeping of the boundary has to get past the first hole)
HOLE2 = Poly([[0.5, 0.25], [4.5, 0.25], [4.5, 3.25], [0.5, 3.25]],
             holes=[[[1.0, 0.75], [2.0, 0.75], [2.0, 1.75], [1.0, 1.75]], [[2.75, 1.5], [4.0, 1.75], [3.5, 2.75]]])
IN_P_CW = P([-0.3, -0.3], [-0.2, 0.3], [0.3, -0.2])       # IN_P with clockwise corners
# parameter dependent
C_MOVE = C([aff(0, t=1), 0], 0.5)
C_GROW = C([0, 0], aff(0.5, t=0.5))
C_BOTH = C([aff(0.2, t=0.5), aff(-0.1, t=-0.3)], aff(0.4, t=0.3))
SQ_MOVE = P([aff(0, t=1), 0], [aff(1, t=1), 0], [aff(0, t=1), 1])
SQ_GROW = P([0, 0], [aff(1, t=1), 0], [0, 1])
SLP_T = P([aff(0.3, t=0.5), 0.1], [aff(1.7, t=0.5), aff(0.6, t=0.4)], [aff(-0.2, t=0.5), 1.3])
TR_GROW = T([0, 0], [aff(1, t=1), 0], [0, 1])
TR_MOVE = T([aff(0, t=1), aff(0, t=-0.5)], [aff(1, t=1), aff(0, t=-0.5)], [aff(0, t=1), aff(1, t=-0.5)])
C_ST = C([aff(0, s=1), aff(0, t=1)], 0.5)          # two parameters
# second operands in generic position w.r.t. the first ones
G_C = C([0.9, 0.6], 0.5)
G_P = P([0.55, -0.2], [1.35, 0.1], [0.35, 0.5])
G_T = T([0.45, 0.35], [1.4, 0.55], [0.6, 1.45])
IN_C = C([0.5, 0.5], 0.25)                      # contained in SQ
IN_P = P([-0.3, -0.3], [0.3, -0.2], [-0.2, 0.3])    # contained in C1
FAR_C = C([3, 0.2], 0.5)                        # disjoint from everything near the origin
FAR_P = P([2.5, 1], [3.5, 1.2], [2.4, 1.9])
G_CMOVE = C([aff(0.3, t=0.4), 0.5], 0.2)        # moving hole, inside SQ for t in [0,1]
SQ_MOVE2 = P([aff(0.35, t=0.4), 0.2], [aff(1.35, t=0.4), 0.2], [aff(0.35, t=0.4), 1.2])   # overlaps SQ partially for every t
G_CGROW = C([0.9, 0.6], aff(0.3, t=0.23))       # radius 0.3 .. 0.53: never tangent to the line y=0 (0.6 would touch it)

# ---- 1-D / 3-D leaves ---------------------------------------------------------------------
I01 = I(0, 1)
I2 = I(-1.5, 2)
I_GROW = I(0, aff(1, t=1))
I_MOVE = I(aff(0, t=1), aff(2, t=1))
IB = I(0.5, 2.5)
I_IN = I(0.25, 0.75)
I_FAR = I(3, 4)
S1 = S([0, 0, 0], 1)
S2 = S([0.5, -0.2, 0.3], 0.5)
S_GROW = S([0, 0, 0], aff(0.5, t=0.5))
S_MOVE = S([aff(0, t=1), 0, 0.2], 0.6)
G_S = S([0.7, 0.3, 0], 0.6)
IN_S = S([0.1, 0, 0], 0.4)
IN_S2 = S([0.05, 0, 0], 0.3)          # strictly inside S_GROW for every t (IN_S is tangent to it at t=0)
# convex polyhedra realised by TrimeshPolyhedron (reference: tpmc.ref.poly3d); inward winding / STL file as variants
M_TET = M("tetra")
M_BOX = M("box", "in", "file")
M_TALL = M("tall")
M_IN_S = S([1.2, 0.0, 0.6], 0.3)        # inside the box
M_G_S = S([0.9, 0.6, 0.4], 0.6)         # generic position w.r.t. the tetrahedron
# parameter intervals used as second product factors
IT = I(0, 1, var="t")
IT2 = I(0.5, 1, var="t")
I_STEEP = I(0, aff(0.2, t=1.8))        # length 0.2 .. 2.0: a strongly t-dependent first factor


def _firsts2(tier):
    f = [SQ, SLP, C1, TSL]
    if tier == "thorough":
        f += [SQ_CW, C2, TR, LSH, SQ_MOVE, C_GROW]
    return f


def _seconds2(tier):
    g = [G_C, G_P]
    if tier == "thorough":
        g += [G_T, G_CGROW]
    return g


def leaves2(tier):
    out = [SQ, SQ_CW, SLP, P_R60, C1, C2, TR, TSL, TCW, LSH, HOLE, HOLE2, C_MOVE, C_GROW, SQ_MOVE, SQ_GROW, TR_GROW]
    if tier == "thorough":
        out += [SLP_CW, THIN, RECT, C3, C_BOTH, SLP_T, TR_MOVE, C_ST]
    return out


def leaves1(tier):
    out = [I01, I2, I_GROW, I_MOVE]
    return out


def leaves3(tier):
    out = [S1, S_GROW, S2, M_TET, M_BOX, M_TALL, Rot3(M_BOX, 0.7, "z", around=[0.2, 0.1, 0.0]), Rot3(S2, aff(0.2, t=1.0), "x")]
    if tier == "thorough":
        out += [S_MOVE, M("tetra", "in", "arrays"), M("tetra", "out", "file"), M("box", "out", "arrays")]
    return out


def booleans2(tier):
    out = []
    for f in _firsts2(tier):
        for g in _seconds2(tier):
            out += [U(f, g), Cut(f, g), N(f, g)]
    out += [Cut(SQ, IN_C, contained=True), Cut(SQ, IN_C), Cut(C1, IN_P, contained=True),
            U(SQ, FAR_C, disjoint=True), U(SQ, FAR_C), U(C1, FAR_P, disjoint=True),
            Cut(SQ, G_CMOVE, contained=True), U(SQ_MOVE, G_C), N(C_GROW, SQ), Cut(C1, SQ), N(C1, SQ),
            Cut(LSH, G_C), U(TR, G_P),
            # clockwise operands inside Boolean combinations (their own membership test filters the composite's samples)
            Cut(C1, IN_P_CW, contained=True), N(TCW, G_C), Cut(SQ, T([0.2, 0.2], [0.3, 0.8], [0.8, 0.3]))]
    if tier == "thorough":
        out += [Cut(SLP, IN_C), U(SLP, FAR_P, disjoint=True), Cut(C_GROW, IN_P), N(SQ_MOVE, C1),
                Cut(HOLE, C([2.0, 0.65], 0.7)), U(LSH, C([2, 2], 0.8)), N(LSH, C([1, 1], 0.9)),
                Cut(SQ_CW, IN_C, contained=True), U(SQ, SQ_MOVE2), N(SQ, SQ_MOVE2)]
    return out


def booleans1(tier):
    return [U(I01, IB), Cut(I2, I01, contained=True), Cut(I2, IB), N(I2, IB), U(I01, I_FAR, disjoint=True),
            Cut(I2, I_GROW), N(I_MOVE, I2), U(I_GROW, I_FAR)]


def booleans3(tier):
    out = [Cut(S1, IN_S, contained=True), N(S1, G_S), Cut(M_BOX, M_IN_S, contained=True), N(M_TET, M_G_S)]
    if tier == "thorough":
        out += [U(S1, G_S), Cut(S1, G_S), U(S2, S([3, 0, 0], 0.5), disjoint=True), Cut(S_GROW, IN_S2),
                U(M_TET, M_G_S), Cut(M_TET, M_G_S), U(M_TET, S([3, 0, 0], 0.5), disjoint=True),
                Tr(M_TET, [aff(0, t=1), 0.5, 0]), Rot3(M_TET, aff(0, t=1.1), "y", around=[0.5, 0.5, 0.5]),
                Rot3(Cut(M_BOX, M_IN_S, contained=True), 0.5, "x"), N(Rot3(S_GROW, 0.9, "z", around=[0.3, 0, 0]), G_S)]
    return out


def nested2(tier):
    """two Boolean operators, all bracketings"""
    if tier != "thorough":
        return [Cut(U(SQ, G_C), IN_C), U(Cut(SQ, IN_C, contained=True), FAR_C, disjoint=True), N(U(SQ, G_C), SLP)]
    out = []
    H = [C([0.2, 0.9], 0.35), P([0.6, 0.3], [1.1, 0.45], [0.5, 0.8])]
    for f in [SQ, SLP, C1]:
        for g in [G_C, G_P]:
            for h in H:
                for op1 in (U, Cut, N):
                    for op2 in (U, Cut, N):
                        out.append(op2(op1(f, g), h))
                        if op2 is N and g is G_P and h is H[0]:
                            continue       # G_P and that disc are disjoint: an EMPTY operand is not a set of positive measure
                        out.append(op1(f, op2(g, h)))
    out += [Cut(U(SQ, G_C), IN_C), U(Cut(SQ, IN_C, contained=True), FAR_C, disjoint=True),
            Cut(Cut(SQ, IN_C, contained=True), G_CMOVE), N(U(SQ_MOVE2, G_C), C1)]
    return out


ANGLES = [0.5, math.pi / 2, 2.3, -1.0]


def transforms2(tier):
    out = [Tr(SQ, [0.7, -0.4]), Tr(C1, [aff(0, t=1), aff(0, t=2)]), Tr(SLP, [aff(0, t=1), 0.5]),
           Rot(SQ, 0.5), Rot(SQ, aff(0, t=1)), Rot(SLP, 2.3, around=[0.5, 0.5]),
           Tr(Cut(SQ, IN_C, contained=True), [aff(0, t=1), aff(0, t=2)]), Rot(Cut(SQ, G_C), aff(0, t=1)),
           Tr(C_GROW, [1.0, 1.0]), Rot(TR, math.pi / 2), Tr(SQ_MOVE, [0, aff(0, t=1)]),
           Rot(U(SQ, G_C), 0.5), Rot(C2, aff(0.3, t=1.2), around=[1, 0]),
           # parameter-dependent rigid motions as OPERANDS (the enclosing box must cover every parameter row)
           U(Tr(SQ, [aff(0, t=3), 0]), G_C), N(Rot(SLP, aff(0, t=1), around=[0.5, 0.5]), C1),
           Rot(SQ_GROW, aff(0, t=1.3)), Tr(SQ_GROW, [aff(0, t=1), 0.25])]        # inner domain AND motion depend on the parameter
    if tier == "thorough":
        for ang in ANGLES:
            out += [Rot(SQ, ang), Rot(TSL, ang, around=[0.3, 0.1]), Rot(LSH, ang)]
        out += [Tr(Rot(SQ, 0.5), [1, 1]), Rot(Tr(SQ, [1, 1]), 0.5), Rot(Rot(SQ, 0.5), aff(0, t=1)),
                Tr(N(SQ, G_C), [aff(0, t=-1), 0.3]), Rot(N(C1, SQ), aff(0.2, t=1)), Tr(LSH, [aff(0, t=1), 0]),
                Cut(Rot(SQ, 0.5), G_C), U(Tr(SQ, [aff(0, t=1), 0]), G_C), X(Tr(I01, [aff(0, t=2)]), I(0, 1, var="y")),
                Rot(SQ_GROW, aff(0, t=1)), Tr(C_ST, [0.5, 0]), Rot(SQ, aff(0, s=1, t=1)),
                Rot(SQ, aff(0, t=1), around=[aff(0.5, t=0.5), 0.5])]
    return out


def transforms1(tier):
    return [Tr(I01, [0.7]), Tr(I01, [aff(0, t=1)]), Tr(I_GROW, [aff(0, t=-1)]), Tr(U(I01, I_FAR, disjoint=True), [aff(0, t=1)])]


def products(tier):
    out = [X(I01, IT), X(C1, IT), X(I_GROW, IT), X(C_GROW, IT), X(C_MOVE, IT), X(SQ_MOVE, IT2),
           X(I(0, 1, var="y"), I01), X(SQ, I(0, 2, var="y")), X(Cut(SQ, G_CMOVE, contained=True), IT),
           X(I_GROW, I(0, 1, var="s")), X(I_STEEP, IT),
           X(I_STEEP, X(I(0, 1, var="s"), IT)),      # first factor depends on only ONE of the second factor's variables
           X(M_TET, IT),
           # products that still need an EXTERNAL parameter: in the dependent first factor / in the second factor
           X(C_ST, I(0, 1, var="s")), X(I_STEEP, I(0, aff(0.5, s=0.5), var="t"))]
    if tier == "thorough":
        out += [X(TR_GROW, IT), X(S_GROW, IT), X(U(SQ_MOVE, G_C), IT), X(Tr(SQ, [aff(0, t=1), 0]), IT),
                X(Rot(SQ, aff(0, t=1)), IT), X(X(I(0, 1, var="y"), I01), IT), X(C_ST, X(I(0, 1, var="s"), IT)),
                X(I_GROW, I(aff(0, s=1), aff(1, s=1), var="t")),
                X(B(C_GROW), IT), X(C_GROW, B(IT)), X(N(C_GROW, SQ), IT)]
    return out


def solids(tier, dims=(1, 2, 3)):
    out = []
    if 1 in dims:
        out += leaves1(tier) + booleans1(tier) + transforms1(tier)
    if 2 in dims:
        out += leaves2(tier) + booleans2(tier) + nested2(tier) + transforms2(tier)
    if 3 in dims:
        out += leaves3(tier) + booleans3(tier)
    return dedupe(out)


def boundary_exprs(tier, dims=(1, 2, 3)):
    out = [B(a) for a in solids(tier, dims) if a["k"] != "poly" or True]
    if 1 in dims:
        out += [BL(I01), BR(I01), BL(I_MOVE), BR(I_GROW)]
    return dedupe(out)


def lowdim_unions(tier):
    """unions whose operands have a lower dimension than their space (lines, end points, points)"""
    return [U(B(C1), B(SLP)), U(B(C_MOVE), B(FAR_P)), U(BL(I_MOVE), BR(I_GROW)),
            U(Pt([0.3, 0.4]), Pt([aff(2.0, t=1), -0.5])), U(B(S2), B(M_TET))]


def mesh_extras(tier):
    """a large polyhedron built with a user tolerance"""
    big = M("tetra_big")
    return [big, B(big)]


def default_exprs(tier):
    """shape functions that DECLARE a default for a variable which the parameter rows nevertheless supply (with other
    values): the supplied value wins, row by row.  Kept out of solids(): `necessary_variables` of such a domain does
    not list the defaulted variable, which C17 would read as a missing free variable.  Every expression also needs a
    variable WITHOUT default: a shape function all of whose arguments are defaulted is evaluated without arguments by the
    parameter-free sampling paths and must then return a tensor with a batch axis itself -- a calling convention, not a
    question of where samples lie."""
    c_def = C([aff(0, t=1), 0], affd(0.2, {"r0": 1.0}, r0=0.5))
    i_def = I(0, affd(1.0, {"r0": 1.0}, t=0.5, r0=1.0))
    s_def = S([aff(0, t=0.5), 0, 0], affd(0.3, {"r0": 1.0}, r0=0.3))
    return [c_def, i_def, B(c_def), Cut(SQ, C([0.5, 0.5], affd(0.1, {"r0": 1.0}, t=0.05, r0=0.2)), contained=True), s_def]


def dedupe(xs):
    seen, out = set(), []
    for x in xs:
        s = show(x)
        if s not in seen:
            seen.add(s)
            out.append(x)
    return out


def param_batches(fv, ks=(0, 1, 2, 3), one_per_k=False):
    """parameter batches for an expression with free variables fv: list of {var: [values per row]}.
    k = 0 only for parameter-free expressions; rows carry DISTINCT values so mix-ups show."""
    fv = sorted(fv)
    if not fv:
        return [{}]
    out = []
    base = {1: [[0.5], [0.0], [1.0]], 2: [[0.0, 1.0], [1.0, 0.5]], 3: [[1.0, 0.0, 0.5], [0.5, 1.0, 0.0]]}
    for k in ks:
        if k == 0:
            continue
        for rows in (base[k][:1] if one_per_k and k > 1 else base[k]):
            b = {}
            for j, v in enumerate(fv):
                b[v] = rows if j == 0 else list(reversed(rows))   # second parameter in another order
            out.append(b)
    return out


@functools.lru_cache(maxsize=None)
def _pos(s):
    return None


def positive_measure(a, theta):
    """reference measure of a solid same-space expression at parameter row theta >= 1% of its box"""
    if a["k"] == "boundary":
        return positive_measure(a["a"], theta)
    if not G.is_solid(a) or a["k"] == "prod":
        return True
    vals = {v: np.array([[x]]) for v, x in theta.items()}
    box = G.ref_box(a, vals)[0]
    vol = float(np.prod(box[:, 1] - box[:, 0]))
    if vol <= 0:
        return False
    m = G.quad_measure(a, vals, m=120 if len(box) < 3 else 40)
    return m >= 0.01 * vol
