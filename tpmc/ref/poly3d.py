"""Reference semantics for convex polyhedra given by vertices and triangular faces (float64, numpy only),
and builders for the real TrimeshPolyhedron (from vertices/faces in either winding, or from an STL file)."""
import os
import numpy as np

TETRA_V = [[0.2, 0.1, 0.0], [1.7, 0.3, 0.1], [0.4, 1.5, 0.2], [0.6, 0.5, 1.3]]
TETRA_F = [[0, 2, 1], [0, 1, 3], [1, 2, 3], [0, 3, 2]]                 # outward wound
BOX_V = [[x, y, z] for x in (0.5, 2.0) for y in (-0.5, 0.5) for z in (0.25, 1.0)]
BOX_F = [[0, 1, 3], [0, 3, 2], [4, 6, 7], [4, 7, 5], [0, 4, 5], [0, 5, 1], [2, 3, 7], [2, 7, 6], [0, 2, 6], [0, 6, 4], [1, 5, 7], [1, 7, 3]]
# a tall column: the three bounding-box extents differ, and the y-range is a sub-range of the z-range
TALL_V = [[x, y, z] for x in (0.0, 1.0) for y in (0.0, 0.8) for z in (0.0, 3.0)]
# the tetrahedron 40 times larger, built with the constructor argument tol=1e-3 (float32 coordinates of its surface points are
# off by several 1e-6, more than the default tolerance)
BIG_V = [[40.0 * c for c in v_] for v_ in TETRA_V]
SHAPES = {"tetra": (TETRA_V, TETRA_F), "box": (BOX_V, BOX_F), "tall": (TALL_V, BOX_F), "tetra_big": (BIG_V, TETRA_F)}
MESH_TOL = {"tetra_big": 1.0e-3}


def _tri(v, f):
    v = np.asarray(v, dtype=np.float64)
    return v[np.asarray(f)]                      # (F,3,3)


def signed_volume(v, f):
    t = _tri(v, f)
    return float(np.sum(np.einsum("ij,ij->i", t[:, 0], np.cross(t[:, 1], t[:, 2]))) / 6.0)


def volume(v, f):
    return abs(signed_volume(v, f))


def area(v, f):
    t = _tri(v, f)
    return float(np.sum(np.linalg.norm(np.cross(t[:, 1] - t[:, 0], t[:, 2] - t[:, 0]), axis=1)) / 2.0)


def sdf_bound(v, f, p):
    """convex polyhedron: max over faces of the signed plane distance (negative inside; lower bound of the distance outside)"""
    t = _tri(v, f)
    n = np.cross(t[:, 1] - t[:, 0], t[:, 2] - t[:, 0])
    n = n / np.linalg.norm(n, axis=1, keepdims=True)
    c = np.asarray(v, dtype=np.float64).mean(0)
    sign = np.sign(np.einsum("ij,ij->i", n, t[:, 0] - c))      # make every normal point away from the centroid
    n = n * sign[:, None]
    d = np.einsum("pj,fj->pf", np.asarray(p, dtype=np.float64), n) - np.einsum("fj,fj->f", n, t[:, 0])[None, :]
    return d.max(1)


def surface_points(v, f, m):
    """about m points on the surface, UNIFORM with respect to area: every face carries a barycentric lattice (cell
    centroids) whose point count is proportional to the face area (deterministic)"""
    t = _tri(v, f)
    areas = np.linalg.norm(np.cross(t[:, 1] - t[:, 0], t[:, 2] - t[:, 0]), axis=1) / 2.0
    pts = []
    for tri, ar in zip(t, areas):
        q = max(1, int(round(np.sqrt(m * ar / areas.sum()))))       # q*q small triangles per face
        for i in range(q):
            for j in range(q - i):
                a, b = (i + 1 / 3) / q, (j + 1 / 3) / q                 # upward cells
                pts.append(tri[0] + a * (tri[1] - tri[0]) + b * (tri[2] - tri[0]))
                if j < q - i - 1:
                    a, b = (i + 2 / 3) / q, (j + 2 / 3) / q             # downward cells
                    pts.append(tri[0] + a * (tri[1] - tri[0]) + b * (tri[2] - tri[0]))
    return np.asarray(pts)


def special_points(v, f):
    """vertices and edge midpoints (on the surface, where ray-casting and nearest-face queries are least robust)"""
    t = _tri(v, f)
    pts = []
    for tri in t:
        pts += [0.5 * (tri[0] + tri[1]), 0.5 * (tri[1] + tri[2]), 0.5 * (tri[2] + tri[0]), tri[0], tri[1], tri[2]]
    return np.unique(np.round(np.asarray(pts), 12), axis=0)


def edge_dist(v, f, p):
    """distance of points p to the nearest edge segment of the triangulation"""
    t = _tri(v, f)
    p = np.asarray(p, dtype=np.float64)
    best = np.full(len(p), np.inf)
    for tri in t:
        for i in range(3):
            a, b = tri[i], tri[(i + 1) % 3]
            ab = b - a
            s = np.clip((p - a) @ ab / (ab @ ab), 0, 1)
            best = np.minimum(best, np.linalg.norm(p - (a + s[:, None] * ab), axis=1))
    return best


def box(v):
    v = np.asarray(v, dtype=np.float64)
    return np.stack([v.min(0), v.max(0)], 1)


def flipped(f):
    return [[a, c, b] for a, b, c in f]


def write_stl(path, v, f):
    t = _tri(v, f)
    with open(path, "w") as fh:
        fh.write("solid s\n")
        for tri in t:
            n = np.cross(tri[1] - tri[0], tri[2] - tri[0])
            n = n / np.linalg.norm(n)
            fh.write("facet normal %.8f %.8f %.8f\n outer loop\n" % tuple(n))
            for p in tri:
                fh.write("  vertex %.8f %.8f %.8f\n" % tuple(p))
            fh.write(" endloop\nendfacet\n")
        fh.write("endsolid s\n")


def build(shape, winding, source, tmpdir=None, space=None):
    """the real TrimeshPolyhedron for `shape` with `winding` in {'out','in'} built from `source` in {'arrays','file'}"""
    from torchphysics.problem.domains.domain3D.trimesh_polyhedron import TrimeshPolyhedron
    from torchphysics.problem.spaces import Space
    v, f = SHAPES[shape]
    space = space if space is not None else Space({"x": 3})
    if winding == "in":
        f = flipped(f)
    kw = {"tol": MESH_TOL[shape]} if shape in MESH_TOL else {}
    if source == "arrays":
        return TrimeshPolyhedron(space, vertices=v, faces=f, **kw)
    if tmpdir is None:
        import tempfile
        tmpdir = tempfile.mkdtemp(prefix="tpmc_mesh_")
    path = os.path.join(tmpdir, "%s_%s.stl" % (shape, winding))
    write_stl(path, v, f)
    dom = TrimeshPolyhedron(space, file_name=path, file_type="stl", **kw)
    if tmpdir.startswith(os.path.join(__import__("tempfile").gettempdir(), "tpmc_mesh_")):
        __import__("shutil").rmtree(tmpdir, ignore_errors=True)
    return dom
