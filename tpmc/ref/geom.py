"""Domain-expression language (DEL) and its float64 reference semantics.

An expression is a JSON-able dict.  Shape parameters are numbers / lists of numbers, or affine
functions of named variables  ['aff', c, {'t': a, ...}]  (value c + a*t + ...).

Two interpreters live elsewhere/below:
  * tpmc.ref.build.build_tp(ast)   -> the REAL torchphysics object (public constructors only)
  * this module                    -> the denotation, numpy float64, sharing no code with /repo

Central function: sdf(ast, vals) for *solid* expressions: negative inside, positive outside, and
|sdf| <= distance to the boundary of the denoted set (1-Lipschitz lower bound; exact for
primitives).  Boundary membership of arbitrary Boolean nestings is judged by the ring test
near_boundary(): a point is within h of the boundary iff the sphere of radius h around it meets
both the set and its complement -- no hand-written boundary algebra.
"""
import math
import numpy as np

# ------------------------------------------------------------------ constructors ----------
def aff(c, **co):
    return ["aff", float(c), {k: float(v) for k, v in co.items()}]


def affd(c, defaults, **co):
    """affine shape function some of whose variables have a DEFAULT in the generated Python function
    (`lambda t, r0=1.0: ...`); the denotation is the same affine function of the supplied values"""
    return ["aff", c, co, dict(defaults)]


def I(a, b, var="x"):
    return {"k": "interval", "var": var, "a": a, "b": b}


def C(c, r, var="x"):
    return {"k": "circle", "var": var, "c": list(c), "r": r}


def P(o, c1, c2, var="x"):
    return {"k": "para", "var": var, "o": list(o), "c1": list(c1), "c2": list(c2)}


def T(o, c1, c2, var="x"):
    return {"k": "tri", "var": var, "o": list(o), "c1": list(c1), "c2": list(c2)}


def S(c, r, var="x"):
    return {"k": "sphere", "var": var, "c": list(c), "r": r}


def Poly(verts, holes=(), var="x"):
    return {"k": "poly", "var": var, "verts": [list(v) for v in verts],
            "holes": [[list(v) for v in h] for h in holes]}


def M(shape, winding="out", source="arrays", var="x"):
    """convex polyhedron of tpmc.ref.poly3d.SHAPES, realised by the library's TrimeshPolyhedron"""
    return {"k": "mesh", "var": var, "shape": shape, "winding": winding, "source": source}


def Pt(p, var="x"):
    return {"k": "point", "var": var, "p": list(p) if isinstance(p, (list, tuple)) and not is_aff(p) else p}


def U(a, b, disjoint=False):
    return {"k": "union", "a": a, "b": b, "disjoint": bool(disjoint)}


def Cut(a, b, contained=False):
    return {"k": "cut", "a": a, "b": b, "contained": bool(contained)}


def N(a, b):
    return {"k": "inter", "a": a, "b": b}


def X(a, b):
    return {"k": "prod", "a": a, "b": b}


def Tr(a, v):
    return {"k": "translate", "a": a, "v": list(v) if not is_aff(v) else v}


def Rot(a, angle, around=None):
    return {"k": "rotate", "a": a, "angle": angle, "around": list(around) if around is not None else None}


def Rot3(a, angle, axis="z", around=None):
    """rotation of a 3-D expression about a coordinate axis through `around` (the library gets the 3x3 matrix)"""
    return {"k": "rotate", "a": a, "angle": angle, "around": list(around) if around is not None else None, "axis": axis}


def _axis_rot(d, al, axis, inverse=False):
    """rotate the rows of d (n,3) by the angles al (n,) about a coordinate axis"""
    if inverse:
        al = -al
    ca, sa = np.cos(al), np.sin(al)
    i, j = {"z": (0, 1), "x": (1, 2), "y": (2, 0)}[axis]
    out = d.copy()
    out[:, i] = ca * d[:, i] - sa * d[:, j]
    out[:, j] = sa * d[:, i] + ca * d[:, j]
    return out


def B(a):
    return {"k": "boundary", "a": a}


def BL(a):
    return {"k": "bleft", "a": a}


def BR(a):
    return {"k": "bright", "a": a}


def is_aff(e):
    return isinstance(e, list) and len(e) in (3, 4) and e[0] == "aff"


PRIMS = ("interval", "circle", "para", "tri", "sphere", "poly", "point", "mesh")
DIMS = {"interval": 1, "circle": 2, "para": 2, "tri": 2, "sphere": 3, "poly": 2, "mesh": 3}


# ------------------------------------------------------------------ structure -------------
def show(a):
    k = a["k"]

    def e(x):
        if is_aff(x):
            s = "%g" % x[1]
            for v, c in x[2].items():
                s += "%+g%s" % (c, v)
                if len(x) > 3 and v in x[3]:
                    s += "[=%g]" % x[3][v]
            return s
        if isinstance(x, list):
            return "(" + ",".join(e(y) for y in x) + ")"
        return "%g" % x
    if k == "interval":
        return "I[%s,%s]%s" % (e(a["a"]), e(a["b"]), "" if a["var"] == "x" else ":" + a["var"])
    if k == "circle":
        return "C(%s,%s)" % (e(a["c"]), e(a["r"]))
    if k == "sphere":
        return "S(%s,%s)" % (e(a["c"]), e(a["r"]))
    if k in ("para", "tri"):
        return "%s(%s,%s,%s)" % ("P" if k == "para" else "T", e(a["o"]), e(a["c1"]), e(a["c2"]))
    if k == "poly":
        return "Poly%d%s" % (len(a["verts"]), "h" * len(a["holes"]))
    if k == "point":
        return "Pt%s" % e(a["p"])
    if k == "mesh":
        return "M(%s,%s,%s)" % (a["shape"], a["winding"], a["source"])
    if k == "union":
        return "(%s %s %s)" % (show(a["a"]), "+d" if a["disjoint"] else "+", show(a["b"]))
    if k == "cut":
        return "(%s %s %s)" % (show(a["a"]), "-c" if a["contained"] else "-", show(a["b"]))
    if k == "inter":
        return "(%s & %s)" % (show(a["a"]), show(a["b"]))
    if k == "prod":
        return "(%s * %s)" % (show(a["a"]), show(a["b"]))
    if k == "translate":
        return "Tr(%s,%s)" % (show(a["a"]), e(a["v"]))
    if k == "rotate":
        return "Rot%s(%s,%s%s)" % ("3" + a["axis"] if a.get("axis") else "", show(a["a"]), e(a["angle"]),
                                   "" if a["around"] is None else "@" + e(a["around"]))
    if k == "boundary":
        return "d%s" % show(a["a"])
    if k == "bleft":
        return "dL%s" % show(a["a"])
    if k == "bright":
        return "dR%s" % show(a["a"])
    raise ValueError(k)


def space_vars(a):
    """ordered [(var, dim)] of the space the expression lives in"""
    k = a["k"]
    if k in DIMS:
        return [(a["var"], DIMS[k])]
    if k == "point":
        p = a["p"]
        return [(a["var"], len(p) if isinstance(p, list) and not is_aff(p) else 1)]
    if k == "prod":
        out = list(space_vars(a["a"]))
        for v in space_vars(a["b"]):
            if v not in out:
                out.append(v)
        return out
    return space_vars(a["a"])


def _aff_vars(e, acc):
    if is_aff(e):
        acc.update(e[2].keys())
    elif isinstance(e, list):
        for y in e:
            _aff_vars(y, acc)


def free_vars(a):
    """parameters the expression needs (variables of shape functions that are not coordinates
    provided by an enclosing product)"""
    k = a["k"]
    acc = set()
    if k in PRIMS:
        for key, val in a.items():
            if key not in ("k", "var", "verts", "holes", "shape", "winding", "source"):
                _aff_vars(val, acc)
        return acc
    if k == "prod":
        bvars = {v for v, _ in space_vars(a["b"])}
        return (free_vars(a["a"]) - bvars) | free_vars(a["b"])
    if k in ("union", "cut", "inter"):
        return free_vars(a["a"]) | free_vars(a["b"])
    if k == "translate":
        _aff_vars(a["v"], acc)
        return acc | free_vars(a["a"])
    if k == "rotate":
        _aff_vars(a["angle"], acc)
        if a["around"] is not None:
            _aff_vars(a["around"], acc)
        return acc | free_vars(a["a"])
    return free_vars(a["a"])


def defaulted_vars(a):
    """variables for which some shape function of the expression declares a default (they are optional: the library
    does not list them as necessary, a supplied value still wins)"""
    acc = set()

    def rec(e):
        if is_aff(e):
            if len(e) > 3:
                acc.update(v for v in e[3] if v in e[2])
        elif isinstance(e, list):
            for y in e:
                rec(y)
        elif isinstance(e, dict):
            for y in e.values():
                rec(y)
    rec(a)
    return acc


def is_solid(a):
    k = a["k"]
    if k in ("boundary", "bleft", "bright", "point"):
        return False
    if k in PRIMS:
        return True
    if k in ("union", "cut", "inter", "prod"):
        return is_solid(a["a"]) and is_solid(a["b"])
    return is_solid(a["a"])


def depth(a):
    k = a["k"]
    if k in PRIMS:
        return 0
    if "b" in a and isinstance(a.get("b"), dict):
        return 1 + max(depth(a["a"]), depth(a["b"]))
    return depth(a["a"])


def substitute(a, fixed):
    """the expression with parameters `fixed` (name -> float) replaced by their values"""
    def sub(e):
        if is_aff(e):
            c = e[1]
            co = {}
            for v, w in e[2].items():
                if v in fixed:
                    c += w * fixed[v]
                else:
                    co[v] = w
            if co and len(e) > 3 and any(v in co for v in e[3]):
                return ["aff", c, co, {v: d for v, d in e[3].items() if v in co}]
            return ["aff", c, co] if co else c
        if isinstance(e, list):
            return [sub(y) for y in e]
        return e
    out = {}
    for key, val in a.items():
        if isinstance(val, dict):
            out[key] = substitute(val, fixed)
        elif key in ("k", "var", "verts", "holes", "disjoint", "contained", "shape", "winding", "source", "axis"):
            out[key] = val
        else:
            out[key] = sub(val)
    return out


# ------------------------------------------------------------------ evaluation ------------
def ev(e, vals, n):
    if is_aff(e):
        out = np.full(n, e[1], dtype=np.float64)
        for v, c in e[2].items():
            out = out + c * np.asarray(vals[v], dtype=np.float64).reshape(n, -1)[:, 0]
        return out
    return np.full(n, float(e), dtype=np.float64)


def evv(es, vals, n):
    return np.stack([ev(e, vals, n) for e in es], axis=1)


def _nrows(vals):
    for v in vals.values():
        return len(v)
    return 1


def _seg_dist(p, a, b):
    """distance of points p (n,2) to segments a->b (n,2)/(2,)"""
    ab = b - a
    ap = p - a
    den = np.sum(ab * ab, axis=-1)
    den = np.where(den == 0, 1.0, den)
    t = np.clip(np.sum(ap * ab, axis=-1) / den, 0.0, 1.0)
    proj = a + t[..., None] * ab
    return np.linalg.norm(p - proj, axis=-1)


def poly_sdf(p, loops):
    """signed distance of points p (n,2) to a polygon given by closed loops (each (n,m,2) or (m,2));
    even-odd rule, so inner loops are holes"""
    n = len(p)
    dist = np.full(n, np.inf)
    inside = np.zeros(n, dtype=bool)
    for loop in loops:
        loop = np.asarray(loop, dtype=np.float64)
        if loop.ndim == 2:
            loop = np.broadcast_to(loop, (n,) + loop.shape)
        m = loop.shape[1]
        for i in range(m):
            a = loop[:, i]
            b = loop[:, (i + 1) % m]
            dist = np.minimum(dist, _seg_dist(p, a, b))
            cond = (a[:, 1] > p[:, 1]) != (b[:, 1] > p[:, 1])
            dy = b[:, 1] - a[:, 1]
            dy = np.where(dy == 0, 1.0, dy)
            xint = a[:, 0] + (p[:, 1] - a[:, 1]) * (b[:, 0] - a[:, 0]) / dy
            inside ^= cond & (p[:, 0] < xint)
    return np.where(inside, -dist, dist)


def _coords(a, vals, n):
    return np.asarray(vals[a["var"]], dtype=np.float64).reshape(n, -1)


def prim_vertices(a, vals, n):
    k = a["k"]
    o = evv(a["o"], vals, n)
    c1 = evv(a["c1"], vals, n)
    c2 = evv(a["c2"], vals, n)
    if k == "para":
        return np.stack([o, c1, c1 + c2 - o, c2], axis=1)
    return np.stack([o, c1, c2], axis=1)


def sdf(a, vals):
    """vals: var -> (n, dim) array (coordinates AND parameters).  Solid expressions only."""
    n = _nrows(vals)
    k = a["k"]
    if k == "interval":
        x = _coords(a, vals, n)[:, 0]
        return np.maximum(ev(a["a"], vals, n) - x, x - ev(a["b"], vals, n))
    if k in ("circle", "sphere"):
        x = _coords(a, vals, n)
        return np.linalg.norm(x - evv(a["c"], vals, n), axis=1) - ev(a["r"], vals, n)
    if k in ("para", "tri"):
        return poly_sdf(_coords(a, vals, n), [prim_vertices(a, vals, n)])
    if k == "poly":
        return poly_sdf(_coords(a, vals, n), [a["verts"]] + list(a["holes"]))
    if k == "mesh":
        from . import poly3d
        return poly3d.sdf_bound(*poly3d.SHAPES[a["shape"]], _coords(a, vals, n))
    if k == "union":
        return np.minimum(sdf(a["a"], vals), sdf(a["b"], vals))
    if k == "inter":
        return np.maximum(sdf(a["a"], vals), sdf(a["b"], vals))
    if k == "cut":
        return np.maximum(sdf(a["a"], vals), -sdf(a["b"], vals))
    if k == "prod":
        return np.maximum(sdf(a["a"], vals), sdf(a["b"], vals))
    if k in ("translate", "rotate"):
        return sdf(a["a"], pullback(a, vals))
    raise ValueError("sdf of non-solid expression %s" % show(a))


def pullback(a, vals):
    """coordinates of the inner domain for points of a translated / rotated one"""
    n = _nrows(vals)
    var = space_vars(a)[0][0]
    x = np.asarray(vals[var], dtype=np.float64).reshape(n, -1)
    v2 = dict(vals)
    if a["k"] == "translate":
        v2[var] = x - evv(a["v"], vals, n)
    else:
        al = ev(a["angle"], vals, n)
        c = evv(a["around"], vals, n) if a["around"] is not None else np.zeros_like(x)
        d = x - c
        if a.get("axis"):
            v2[var] = _axis_rot(d, al, a["axis"], inverse=True) + c
            return v2
        ca, sa = np.cos(al), np.sin(al)
        # inverse rotation
        v2[var] = np.stack([ca * d[:, 0] + sa * d[:, 1], -sa * d[:, 0] + ca * d[:, 1]], axis=1) + c
    return v2


def pushforward(a, x, vals):
    """image of inner-domain points x under the transform node a"""
    n = len(x)
    if a["k"] == "translate":
        return x + evv(a["v"], vals, n)
    al = ev(a["angle"], vals, n)
    c = evv(a["around"], vals, n) if a["around"] is not None else np.zeros_like(x)
    d = x - c
    if a.get("axis"):
        return _axis_rot(d, al, a["axis"]) + c
    ca, sa = np.cos(al), np.sin(al)
    return np.stack([ca * d[:, 0] - sa * d[:, 1], sa * d[:, 0] + ca * d[:, 1]], axis=1) + c


_RINGS = {}


def ring(dim):
    if dim not in _RINGS:
        if dim == 1:
            r = np.array([[-1.0], [1.0]])
        elif dim == 2:
            ang = np.arange(64) * (2 * np.pi / 64) + 0.01
            r = np.stack([np.cos(ang), np.sin(ang)], 1)
        elif dim == 3:
            m = 200
            i = np.arange(m) + 0.5
            phi = np.arccos(1 - 2 * i / m)
            th = np.pi * (1 + 5 ** 0.5) * i
            r = np.stack([np.cos(th) * np.sin(phi), np.sin(th) * np.sin(phi), np.cos(phi)], 1)
        else:
            import itertools
            r = np.array([d for d in itertools.product((-1.0, 0.0, 1.0), repeat=dim) if any(d)])
            r = r / np.linalg.norm(r, axis=1, keepdims=True)
        _RINGS[dim] = r
    return _RINGS[dim]


def near_boundary(a, vals, h):
    """for a solid expression: does the sphere of radius h (and h/2) around each point -- in ALL space variables of
    the expression jointly, so products are handled too -- contain both members and non-members?"""
    n = _nrows(vals)
    sv = space_vars(a)
    dim = sum(d for _, d in sv)
    x = np.concatenate([np.asarray(vals[v], dtype=np.float64).reshape(n, -1) for v, _ in sv], 1)
    # the centre itself is not consulted: exactly on a leaf boundary its membership is a matter of
    # convention (closed operands, relatively open removal), the ring decides
    has_in = np.zeros(n, dtype=bool)
    has_out = np.zeros(n, dtype=bool)
    for rad in (h, 0.5 * h):
        for d in ring(dim):
            v2 = dict(vals)
            y = x + rad * d
            c = 0
            for v, dd in sv:
                v2[v] = y[:, c:c + dd]
                c += dd
            f = sdf(a, v2) <= 0
            has_in |= f
            has_out |= ~f
    return has_in & has_out


def member(a, vals, tol):
    """is each point within tol of the set denoted by a (solid or not)?"""
    n = _nrows(vals)
    k = a["k"]
    if is_solid(a):
        return sdf(a, vals) <= tol
    if k == "boundary":
        return near_boundary(a["a"], vals, tol)
    if k in ("bleft", "bright"):
        inner = a["a"]
        x = _coords(inner, vals, n)[:, 0]
        side = ev(inner["a"] if k == "bleft" else inner["b"], vals, n)
        return np.abs(x - side) <= tol
    if k == "point":
        x = np.asarray(vals[a["var"]], dtype=np.float64).reshape(n, -1)
        p = a["p"]
        pv = evv(p, vals, n) if isinstance(p, list) and not is_aff(p) else ev(p, vals, n)[:, None]
        return np.linalg.norm(x - pv, axis=1) <= tol
    if k == "prod":
        return member(a["a"], vals, tol) & member(a["b"], vals, tol)
    if k == "union":
        return member(a["a"], vals, tol) | member(a["b"], vals, tol)
    if k in ("translate", "rotate"):
        return member(a["a"], pullback(a, vals), tol)
    raise ValueError("member: unsupported non-solid expression %s" % show(a))


def far_from(a, vals, tol):
    """is each point certainly farther than tol from the set denoted by a?  (sound, incomplete)"""
    n = _nrows(vals)
    k = a["k"]
    if is_solid(a):
        return sdf(a, vals) > tol
    if k == "boundary":
        return np.abs(sdf(a["a"], vals)) > tol      # |sdf| is a lower bound of the distance to the boundary
    if k in ("bleft", "bright", "point"):
        return ~member(a, vals, tol)
    if k == "prod":
        return far_from(a["a"], vals, tol) | far_from(a["b"], vals, tol)
    if k == "union":
        return far_from(a["a"], vals, tol) & far_from(a["b"], vals, tol)
    if k in ("translate", "rotate"):
        return far_from(a["a"], pullback(a, vals), tol)
    raise ValueError(k)


# ------------------------------------------------------------------ boxes, measures -------
def ref_box(a, vals):
    """conservative per-row bounding box [(lo, hi)] per space axis (n, D, 2); tight for primitives
    and for rigid motions of polygons/discs"""
    n = _nrows(vals) if vals else 1
    k = a["k"]
    if k == "interval":
        return np.stack([ev(a["a"], vals, n), ev(a["b"], vals, n)], 1)[:, None, :]
    if k in ("circle", "sphere"):
        c = evv(a["c"], vals, n)
        r = ev(a["r"], vals, n)[:, None]
        return np.stack([c - r, c + r], 2)
    if k in ("para", "tri"):
        v = prim_vertices(a, vals, n)
        return np.stack([v.min(1), v.max(1)], 2)
    if k == "poly":
        v = np.broadcast_to(np.asarray(a["verts"], dtype=np.float64), (n, len(a["verts"]), 2))
        return np.stack([v.min(1), v.max(1)], 2)
    if k == "point":
        p = a["p"]
        pv = evv(p, vals, n) if isinstance(p, list) and not is_aff(p) else ev(p, vals, n)[:, None]
        return np.stack([pv, pv], 2)
    if k == "mesh":
        from . import poly3d
        return np.broadcast_to(poly3d.box(poly3d.SHAPES[a["shape"]][0])[None], (n, 3, 2)).copy()
    if k == "union":
        ba, bb = ref_box(a["a"], vals), ref_box(a["b"], vals)
        return np.stack([np.minimum(ba[..., 0], bb[..., 0]), np.maximum(ba[..., 1], bb[..., 1])], 2)
    if k in ("cut", "inter"):
        return ref_box(a["a"], vals)
    if k == "prod":
        bb = ref_box(a["b"], vals)
        bsp = space_vars(a["b"])
        dep = free_vars(a["a"]) & {v for v, _ in bsp}
        if not dep:
            return np.concatenate([ref_box(a["a"], vals), bb], 1)
        # dependent product: hull of the first factor's box over a 3^m lattice of the partner coordinates
        import itertools
        cols, c = {}, 0
        for v, d in bsp:
            cols[v] = (c, d)
            c += d
        boxes = []
        for combo in itertools.product((0.0, 0.5, 1.0), repeat=bb.shape[1]):
            v2 = dict(vals)
            pt = bb[:, :, 0] + np.asarray(combo)[None, :] * (bb[:, :, 1] - bb[:, :, 0])
            for v, (c0, d) in cols.items():
                v2[v] = pt[:, c0:c0 + d]
            boxes.append(ref_box(a["a"], v2))
        bx = np.stack(boxes)
        ba = np.stack([bx[..., 0].min(0), bx[..., 1].max(0)], -1)
        return np.concatenate([ba, bb], 1)
    if k == "translate":
        return ref_box(a["a"], vals) + evv(a["v"], vals, n)[:, :, None]
    if k == "rotate":
        inner = a["a"]
        while inner["k"] in ("boundary",):
            inner = inner["a"]
        if inner["k"] in ("para", "tri", "poly"):
            v = (prim_vertices(inner, vals, n) if inner["k"] != "poly" else
                 np.broadcast_to(np.asarray(inner["verts"], dtype=np.float64), (n, len(inner["verts"]), 2)))
            w = np.stack([pushforward(a, v[:, i], vals) for i in range(v.shape[1])], 1)
            return np.stack([w.min(1), w.max(1)], 2)
        if inner["k"] in ("circle", "sphere"):
            c = pushforward(a, evv(inner["c"], vals, n), vals)
            r = ev(inner["r"], vals, n)[:, None]
            return np.stack([c - r, c + r], 2)
        if inner["k"] == "mesh":
            from . import poly3d
            V = np.asarray(poly3d.SHAPES[inner["shape"]][0], dtype=np.float64)
            w = np.stack([pushforward(a, np.broadcast_to(V[i], (n, 3)).copy(), vals) for i in range(len(V))], 1)
            return np.stack([w.min(1), w.max(1)], 2)
        if a.get("axis"):
            b = ref_box(a["a"], vals)
            corners = [np.stack([b[:, 0, i], b[:, 1, j], b[:, 2, l]], 1) for i in (0, 1) for j in (0, 1) for l in (0, 1)]
            w = np.stack([pushforward(a, cc, vals) for cc in corners], 1)
            return np.stack([w.min(1), w.max(1)], 2)
        b = ref_box(a["a"], vals)
        corners = [np.stack([b[:, 0, i], b[:, 1, j]], 1) for i in (0, 1) for j in (0, 1)]
        w = np.stack([pushforward(a, cc, vals) for cc in corners], 1)
        return np.stack([w.min(1), w.max(1)], 2)
    return ref_box(a["a"], vals)


def box_is_tight(a):
    """is ref_box the exact bounding box?"""
    k = a["k"]
    if k in PRIMS:
        return True
    if k == "boundary":
        return box_is_tight(a["a"])
    if k == "translate":
        return box_is_tight(a["a"])
    if k == "rotate":
        inner = a["a"]
        while inner["k"] == "boundary":
            inner = inner["a"]
        return inner["k"] in ("para", "tri", "poly", "circle", "sphere", "mesh")
    if k == "prod":
        return box_is_tight(a["a"]) and box_is_tight(a["b"])
    return False


def loop_area(v):
    x, y = v[..., 0], v[..., 1]
    return 0.5 * np.sum(x * np.roll(y, -1, axis=-1) - np.roll(x, -1, axis=-1) * y, axis=-1)


def loop_len(v):
    return np.sum(np.linalg.norm(np.roll(v, -1, axis=-2) - v, axis=-1), axis=-1)


def measure(a, vals=None, n=None):
    """closed-form measure per row, or None when no closed form is stated by the property"""
    vals = vals or {}
    n = n or (_nrows(vals) if vals else 1)
    k = a["k"]
    one = np.ones(n)
    if k == "interval":
        return ev(a["b"], vals, n) - ev(a["a"], vals, n)
    if k == "circle":
        return np.pi * ev(a["r"], vals, n) ** 2
    if k == "sphere":
        return 4.0 / 3.0 * np.pi * ev(a["r"], vals, n) ** 3
    if k in ("para", "tri"):
        return np.abs(loop_area(prim_vertices(a, vals, n)))
    if k == "poly":
        ar = abs(loop_area(np.asarray(a["verts"], dtype=np.float64)))
        for h in a["holes"]:
            ar -= abs(loop_area(np.asarray(h, dtype=np.float64)))
        return ar * one
    if k == "point":
        return one
    if k == "mesh":
        from . import poly3d
        return poly3d.volume(*poly3d.SHAPES[a["shape"]]) * one
    if k in ("bleft", "bright"):
        return one
    if k == "boundary":
        i = a["a"]
        ik = i["k"]
        if ik == "interval":
            return 2 * one
        if ik == "circle":
            return 2 * np.pi * ev(i["r"], vals, n)
        if ik == "sphere":
            return 4 * np.pi * ev(i["r"], vals, n) ** 2
        if ik == "mesh":
            from . import poly3d
            return poly3d.area(*poly3d.SHAPES[i["shape"]]) * one
        if ik in ("para", "tri"):
            return loop_len(prim_vertices(i, vals, n))
        if ik == "poly":
            return (loop_len(np.asarray(i["verts"], dtype=np.float64)) +
                    sum(loop_len(np.asarray(h, dtype=np.float64)) for h in i["holes"])) * one
        if ik in ("translate", "rotate"):
            return measure({"k": "boundary", "a": i["a"]}, vals, n)
        if ik == "union" and i["disjoint"]:
            ma, mb = measure(B(i["a"]), vals, n), measure(B(i["b"]), vals, n)
            return None if ma is None or mb is None else ma + mb
        if ik == "cut" and i["contained"]:
            ma, mb = measure(B(i["a"]), vals, n), measure(B(i["b"]), vals, n)
            return None if ma is None or mb is None else ma + mb
        return None
    if k == "union":
        if not a["disjoint"]:
            return None
        ma, mb = measure(a["a"], vals, n), measure(a["b"], vals, n)
        return None if ma is None or mb is None else ma + mb
    if k == "cut":
        if not a["contained"]:
            return None
        ma, mb = measure(a["a"], vals, n), measure(a["b"], vals, n)
        return None if ma is None or mb is None else ma - mb
    if k == "inter":
        return None
    if k == "prod":
        bvars = {v for v, _ in space_vars(a["b"])}
        if free_vars(a["a"]) & bvars:
            return None          # dependent product: not stated by the property
        ma, mb = measure(a["a"], vals, n), measure(a["b"], vals, n)
        return None if ma is None or mb is None else ma * mb
    if k in ("translate", "rotate"):
        return measure(a["a"], vals, n)
    raise ValueError(k)


def quad_measure(a, vals_row, m=400):
    """measure of a solid expression in one space variable at ONE parameter row by midpoint
    quadrature of the reference membership on an m^D lattice over ref_box (float64)."""
    var, dim = space_vars(a)[0]
    one = {k: np.asarray(v, dtype=np.float64).reshape(1, -1) for k, v in vals_row.items()}
    box = ref_box(a, one)[0]
    if dim == 3:
        m = min(m, 80)
    axes = [box[i, 0] + (np.arange(m) + 0.5) / m * (box[i, 1] - box[i, 0]) for i in range(dim)]
    grid = np.stack(np.meshgrid(*axes, indexing="ij"), -1).reshape(-1, dim)
    vals = {k: np.broadcast_to(v, (len(grid), v.shape[1])) for k, v in one.items()}
    vals[var] = grid
    frac = np.mean(sdf(a, vals) <= 0)
    return float(frac * np.prod(box[:, 1] - box[:, 0]))


# ------------------------------------------------------------------ boundary parametrisation
def boundary_points(a, vals, s):
    """points of the boundary of primitive a at arclength fractions s (m,) for ONE parameter row
    (vals: var -> (1,dim)).  Returns (m, dim).  Spheres: fibonacci points (s ignored except count)."""
    k = a["k"]
    m = len(s)
    if k == "interval":
        lo, hi = ev(a["a"], vals, 1)[0], ev(a["b"], vals, 1)[0]
        return np.where(s < 0.5, lo, hi)[:, None]
    if k == "circle":
        c = evv(a["c"], vals, 1)[0]
        r = ev(a["r"], vals, 1)[0]
        return c + r * np.stack([np.cos(2 * np.pi * s), np.sin(2 * np.pi * s)], 1)
    if k == "sphere":
        c = evv(a["c"], vals, 1)[0]
        r = ev(a["r"], vals, 1)[0]
        i = np.arange(m) + 0.5
        phi = np.arccos(1 - 2 * i / m)
        th = np.pi * (1 + 5 ** 0.5) * i
        return c + r * np.stack([np.cos(th) * np.sin(phi), np.sin(th) * np.sin(phi), np.cos(phi)], 1)
    if k == "mesh":
        from . import poly3d
        return poly3d.surface_points(*poly3d.SHAPES[a["shape"]], m)
    if k in ("para", "tri", "poly"):
        loops = ([prim_vertices(a, vals, 1)[0]] if k != "poly" else
                 [np.asarray(a["verts"], dtype=np.float64)] + [np.asarray(h, dtype=np.float64) for h in a["holes"]])
        segs = []
        for lp in loops:
            for i in range(len(lp)):
                segs.append((lp[i], lp[(i + 1) % len(lp)]))
        lens = np.array([np.linalg.norm(q - p) for p, q in segs])
        cum = np.concatenate([[0], np.cumsum(lens)])
        pos = s * cum[-1]
        idx = np.clip(np.searchsorted(cum, pos, side="right") - 1, 0, len(segs) - 1)
        out = np.empty((m, 2))
        for j in range(m):
            p, q = segs[idx[j]]
            out[j] = p + (pos[j] - cum[idx[j]]) / lens[idx[j]] * (q - p)
        return out
    raise ValueError(k)


def junctions(a, vals_row):
    """points where outwardness is two-valued for a solid expression at one parameter row:
    vertices of polygonal leaves (mapped through enclosing rigid motions)."""
    out = []

    def rec(node, maps):
        k = node["k"]
        if k in ("para", "tri", "poly"):
            v = (prim_vertices(node, vals_row, 1)[0] if k != "poly" else
                 np.concatenate([np.asarray(node["verts"], dtype=np.float64)] +
                                [np.asarray(h, dtype=np.float64) for h in node["holes"]]))
            for mp in reversed(maps):
                v = pushforward(mp, v, {kk: np.broadcast_to(vv, (len(v), vv.shape[1])) for kk, vv in vals_row.items()})
            out.extend(list(v))
        elif k in ("translate", "rotate"):
            rec(node["a"], maps + [node])
        elif k in ("union", "cut", "inter"):
            rec(node["a"], maps)
            rec(node["b"], maps)
        elif k == "boundary":
            rec(node["a"], maps)
    rec(a, [])
    return np.array(out).reshape(-1, 2) if out else np.zeros((0, 2))


def leaves(a, maps=()):
    """[(leaf primitive, enclosing rigid motions outermost-first)] of a same-space expression"""
    k = a["k"]
    if k in PRIMS:
        return [(a, list(maps))]
    if k in ("translate", "rotate"):
        return leaves(a["a"], list(maps) + [a])
    if k in ("union", "cut", "inter"):
        return leaves(a["a"], maps) + leaves(a["b"], maps)
    return leaves(a["a"], maps)


def has_mesh(a):
    if a["k"] == "mesh":
        return True
    return any(has_mesh(v) for v in a.values() if isinstance(v, dict))


def mesh_ambiguous(a, vals, tol):
    """rows within tol of the surface of a mesh leaf of the expression (ray-casting membership of such points is
    unspecified, and the property only speaks about points farther than the tolerance from the boundary)"""
    n = _nrows(vals)
    out = np.zeros(n, dtype=bool)
    for leaf, maps in leaves(a):
        if leaf["k"] != "mesh":
            continue
        v = vals
        for mp in maps:
            v = pullback(mp, v)
        out |= np.abs(sdf(leaf, v)) <= tol
    return out


def has_kind_prod(a):
    if a["k"] == "prod":
        return True
    return any(has_kind_prod(v) for v in a.values() if isinstance(v, dict))
