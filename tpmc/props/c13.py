"""C13 -- user functions receive their arguments by name."""
import copy
import itertools
import numpy as np
import torch
from torchphysics.problem.spaces import Points
from torchphysics.utils.user_fun import UserFunction, DomainUserFunction

from ..kernel import explorer

PROP = "C13"
LEVEL = "model_checking"
TECHNIQUE = ("explicit-state breadth-first search over histories {call, partially_evaluate, set_default, remove_default, "
             "deepcopy, re-wrap} for every function signature of <= 4 positional-or-keyword parameters, replayed on the real "
             "UserFunction/DomainUserFunction and on a reference model (ordered parameters + defaults, bind by name)")
RULE = ("all signatures over the names a,b,c,d in any order with any trailing block of defaults (<= 4 parameters) x wrapper "
        "class x BFS over histories to the tier's depth; in every state the original and the current wrapper are called "
        "with complete / minimal / incomplete mappings (dict in two insertion orders, Points) and their recorded keyword "
        "arguments compared; distinct states = distinct (original, current, alias) model states")
ASSUMPTIONS = ["reference model in this file", "a re-wrapped function is expected to be independent of the wrapper it was built from"]
BOUNDS = {"quick": {"depth": 2, "max_params": 4}, "thorough": {"depth": 3, "max_params": 4}}
ITEM_LIMIT = {"quick": 900, "thorough": 3600}

NAMES = ["a", "b", "c", "d"]
CODE = {"a": 1.0, "b": 2.0, "c": 3.0, "d": 4.0, "e": 5.0}
WEIGHT = {"a": 1.0, "b": 10.0, "c": 100.0, "d": 1000.0}


def signatures(maxp):
    out = []
    for k in range(0, maxp + 1):
        for order in itertools.permutations(NAMES, k):
            for ndef in range(0, k + 1):
                out.append((list(order), ndef))
    return out


def val(name, tag=0.0):
    return torch.tensor([[CODE[name] + tag], [2 * CODE[name] + tag]])


def make_fn(params, ndef, record):
    """def f(p0, p1=D1, ...): records what it receives, returns sum w_p * value_p"""
    req = len(params) - ndef
    parts = []
    for i, p in enumerate(params):
        parts.append(p if i < req else "%s=_D['%s']" % (p, p))
    body = " + ".join("%r*%s" % (WEIGHT[p], p) for p in params) or "_ZERO"
    src = "def f(%s):\n    _REC.append({%s})\n    return %s + _ZERO\n" % (
        ", ".join(parts), ", ".join("'%s': %s" % (p, p) for p in params), body)
    env = {"_D": {p: val(p, 0.5) for p in params}, "_REC": record, "_ZERO": torch.zeros(2, 1)}
    exec(src, env)
    return env["f"], env["_D"], src


class M:
    """reference: ordered parameters, defaults (name -> value id)"""
    def __init__(self, params, defaults):
        self.params = list(params)
        self.defaults = dict(defaults)

    def copy(self):
        return M(self.params, self.defaults)

    def required(self):
        return [p for p in self.params if p not in self.defaults]

    def bind(self, mapping):
        miss = [p for p in self.required() if p not in mapping]
        if miss:
            return None
        return {p: (mapping[p] if p in mapping else self.defaults[p]) for p in self.params}

    def canon(self):
        return (tuple(self.params), tuple(sorted(self.defaults.items())))


def vid(t):
    """identity of a value: its first entry (values are tagged numbers)"""
    return round(float(torch.as_tensor(t).reshape(-1)[0]), 3)


def expected_result(bound):
    return sum(WEIGHT[p] * v for p, v in bound.items())


class System:
    def __init__(self, item):
        self.params, self.ndef = item["params"], item["ndef"]
        self.cls = DomainUserFunction if item["cls"] == "domain" else UserFunction
        self.clsname = item["cls"]

    def initial(self):
        return [0]

    def canon(self, st):
        # `origin` (which operation created the current wrapper object) is kept in the canonical form although the
        # reference model does not need it: merging e.g. deepcopy- and rewrap-successors would assume that the real
        # objects have the same futures, which is exactly what is being checked
        m0, mc, alias, origin = st
        return (m0.canon(), mc.canon(), alias, origin)

    def enabled(self, st):
        m0, mc, alias, origin = st
        ops = []
        ps = mc.params
        for k in (1, 2):
            for sub in itertools.combinations(ps + ["e"], k):
                if k == 2 and "e" in sub:
                    continue
                ops.append(("pe", list(sub)))
                ops.append(("set_default", list(sub)))
        for p in ps:
            ops.append(("remove_default", p))
        ops += [("deepcopy",), ("rewrap",), ("noop",)]
        return ops

    def build(self, init, hist):
        rec = []
        f, user_defaults, src = make_fn(self.params, self.ndef, rec)
        user_defaults_before = {k: v.clone() for k, v in user_defaults.items()}
        verdicts = []
        try:
            w0 = self.cls(f)
        except Exception as e:
            return None, None, [("C13|error|%s|wrap" % type(e).__name__, "wrapping %s raised %s" % (src.splitlines()[0], e))]
        req = len(self.params) - self.ndef
        m0 = M(self.params, {p: vid(user_defaults[p]) for p in self.params[req:]})
        wc, mc, alias = w0, m0, True
        origin = "orig"
        tag = 0.0
        for i, op in enumerate(hist):
            last = i == len(hist) - 1
            tag += 7.0
            k = op[0]
            if k == "noop":
                continue
            try:
                if k == "pe":
                    kw = {n: val(n, tag) for n in op[1]}
                    kw_before = dict(kw)
                    mapping = {n: vid(v) for n, v in kw.items()}
                    del rec[:]
                    out = wc.partially_evaluate(**kw)
                    if list(kw.keys()) != list(kw_before.keys()):
                        verdicts.append(("C13|user-container-changed|pe", "partially_evaluate changed the keyword dict"))
                    allb = all(p in mapping for p in mc.required())
                    if allb:
                        bound = mc.bind(mapping)
                        if isinstance(out, (UserFunction, DomainUserFunction)):
                            if last:
                                verdicts.append(("C13|pe-not-evaluated", "%s: all required names bound by %s but a wrapper was returned" % (src.splitlines()[0], op[1])))
                            return None, None, verdicts
                        if last:
                            got = {p: vid(v) for p, v in rec[-1].items()} if rec else None
                            if got != bound:
                                verdicts.append(("C13|pe-binding", "%s: partially_evaluate(%s) passed %s, expected %s" % (src.splitlines()[0], op[1], got, bound)))
                            elif abs(vid(out) - expected_result(bound)) > 1e-3 * max(1, abs(expected_result(bound))):
                                verdicts.append(("C13|pe-value", "partially_evaluate returned %s, expected %s" % (vid(out), expected_result(bound))))
                        continue          # value returned: the state does not change
                    if not isinstance(out, (UserFunction, DomainUserFunction)):
                        if last:
                            verdicts.append(("C13|pe-evaluated-early", "%s: required names %s still unbound after %s but a value was returned" % (
                                src.splitlines()[0], [p for p in mc.required() if p not in mapping], op[1])))
                        return None, None, verdicts
                    if out is wc:
                        verdicts.append(("C13|pe-returned-self", "partially_evaluate returned the wrapper itself"))
                    mc = mc.copy()
                    mc.defaults.update({n: v for n, v in mapping.items() if n in mc.params})
                    wc, alias = out, False
                    origin = "pe<" + origin
                elif k == "set_default":
                    kw = {n: val(n, tag) for n in op[1]}
                    wc.set_default(**kw)
                    upd = {n: vid(v) for n, v in kw.items() if n in mc.params}
                    if alias:
                        mc.defaults.update(upd)      # m0 is mc
                    else:
                        mc = mc.copy()
                        mc.defaults.update(upd)
                elif k == "remove_default":
                    if op[1] not in mc.defaults:
                        try:
                            wc.remove_default(op[1])
                            if last:
                                verdicts.append(("C13|remove-missing-default-accepted", "remove_default(%s) without such a default did not raise" % op[1]))
                        except KeyError:
                            pass
                        return None, None, verdicts
                    wc.remove_default(op[1])
                    if not alias:
                        mc = mc.copy()
                    del mc.defaults[op[1]]
                elif k == "deepcopy":
                    wc = copy.deepcopy(wc)
                    mc = mc.copy()
                    alias = False
                    origin = "deepcopy<" + origin
                elif k == "rewrap":
                    wc = self.cls(wc)
                    mc = mc.copy()
                    alias = False
                    origin = "rewrap<" + origin
            except Exception as e:
                if last:
                    verdicts.append(("C13|error|%s|%s" % (type(e).__name__, k), "%s: %s raised %s: %s" % (src.splitlines()[0], op, type(e).__name__, str(e)[:100])))
                return None, None, verdicts
            if alias:
                m0 = mc
        # ---- observe the reached state (only judged for the last step / initial state) -------
        verdicts += self.observe(w0, m0, wc, mc, rec, f, user_defaults, user_defaults_before, src, hist)
        return (w0, wc), (m0, mc, alias, origin), verdicts

    def observe(self, w0, m0, wc, mc, rec, f, user_defaults, ud_before, src, hist):
        out = []
        head = src.splitlines()[0]
        for who, w, m in (("original", w0, m0), ("current", wc, mc)):
            if w.fun is not f:
                out.append(("C13|function-replaced|%s" % who, "%s: the wrapped function object changed" % head))
            if list(w.args) != m.params:
                out.append(("C13|args-changed|%s" % who, "%s: %s wrapper args %s, model %s" % (head, who, list(w.args), m.params)))
            got = {k: vid(v) for k, v in w.defaults.items()}
            if got != m.defaults:
                out.append(("C13|defaults-differ|%s" % who, "%s after %s: %s wrapper defaults %s, model %s" % (head, hist, who, got, m.defaults)))
                continue
            if sorted(w.necessary_args) != sorted(m.required()):
                out.append(("C13|necessary-args|%s" % who, "%s: necessary_args %s, model %s" % (head, w.necessary_args, m.required())))
            # calls: complete mapping in two insertion orders (dict and Points), minimal mapping, incomplete mapping
            full = ["e", "d", "c", "b", "a"]
            for order, as_points in ((full, False), (full[::-1], False), (full, True)):
                mapping = {n: val(n, 0.25) for n in order}
                exp = m.bind({n: vid(v) for n, v in mapping.items()})
                out += self.call(w, mapping, as_points, exp, rec, head, who, "complete%s" % ("-points" if as_points else ""))
            mn = {n: val(n, 0.25) for n in m.required()}
            out += self.call(w, mn, False, m.bind({n: vid(v) for n, v in mn.items()}), rec, head, who, "minimal")
            if self.clsname == "user" and m.params and m.required():
                out += self.call_vectorized(w, m, rec, head, who)
            if m.required():
                miss = {n: val(n, 0.25) for n in m.required()[1:]}
                miss["e"] = val("e", 0.25)
                out += self.call(w, miss, False, None, rec, head, who, "incomplete")
        for k in user_defaults:
            if not torch.equal(user_defaults[k], ud_before[k]):
                out.append(("C13|user-defaults-changed", "%s: a default value object of the user's function was modified" % head))
        return out

    def call_vectorized(self, w, m, rec, head, who):
        """vectorize=True: the function is called once per batch row, still by NAME, defaults for absent optional names"""
        mapping = {n: val(n, 0.25) for n in m.required()}          # optional names absent
        del rec[:]
        try:
            res = w(dict(mapping), vectorize=True)
        except Exception as e:
            return [("C13|error|%s|call-vectorized" % type(e).__name__, "%s: vectorised call with %s raised %s: %s" % (head, list(mapping), type(e).__name__, str(e)[:80]))]
        if len(rec) != 2:
            return [("C13|vectorized-rows", "%s: vectorised call evaluated the function %d times for 2 rows" % (head, len(rec)))]
        for i, r in enumerate(rec):
            got = {p: vid(v) for p, v in r.items()}
            # values of batch length (also defaults: all values here are 2-row tensors) are passed row by row;
            # row 1 of the value tagged `id` is id + CODE[name]
            exp = {p: (vid(mapping[p][i]) if p in mapping else round(m.defaults[p] + i * CODE[p], 3)) for p in m.params}
            if got != exp:
                return [("C13|binding|%s|vectorized" % who, "%s: vectorised call, row %d: the function received %s, binding by name gives %s" % (head, i, got, exp))]
        return []

    def call(self, w, mapping, as_points, exp, rec, head, who, kind):
        del rec[:]
        arg = Points.from_coordinates({k: v.clone() for k, v in mapping.items()}) if as_points and mapping else dict(mapping)
        keys_before = list(mapping.keys())
        try:
            res = w(arg)
        except AssertionError as e:
            if exp is None:
                return []
            return [("C13|call-rejected|%s|%s" % (who, kind), "%s: %s call with %s was rejected: %s" % (head, kind, keys_before, str(e)[:80]))]
        except Exception as e:
            if exp is None:
                return []       # rejected, though not by the documented assertion
            return [("C13|error|%s|call-%s" % (type(e).__name__, kind), "%s: %s call with %s raised %s: %s" % (head, kind, keys_before, type(e).__name__, str(e)[:80]))]
        if exp is None:
            return [("C13|missing-required-accepted|%s" % who, "%s: call without a required name (%s given) was accepted" % (head, keys_before))]
        if not as_points and list(arg.keys()) != keys_before:
            return [("C13|user-container-changed|call", "%s: the argument dict was modified" % head)]
        got = {p: vid(v) for p, v in rec[-1].items()} if rec else {}
        if not w.args:
            got = {}
        if got != exp:
            return [("C13|binding|%s|%s" % (who, kind), "%s: %s call passed %s to the function, binding by name gives %s" % (head, kind, got, exp))]
        want = expected_result(exp)
        r = torch.as_tensor(res)
        if abs(vid(r) - want) > 1e-3 * max(1, abs(want)):
            return [("C13|result|%s|%s" % (who, kind), "%s: result %s, expected %s" % (head, vid(r), want))]
        if self.clsname == "domain" and w.args and tuple(r.shape) != (2, 1, 1):
            return [("C13|domain-result-shape", "%s: DomainUserFunction returned shape %s, expected (2,1,1)" % (head, tuple(r.shape)))]
        return []


def items(tier):
    out = []
    for params, ndef in signatures(BOUNDS[tier]["max_params"]):
        for cls in ("user", "domain"):
            if cls == "domain" and tier == "quick" and len(params) > 2:
                continue
            out.append({"name": "%s(%s|%d defaults)" % (cls, ",".join(params), ndef), "params": params, "ndef": ndef,
                        "cls": cls, "tier": tier, "cost": len(params)})
    return out


def run_item(item):
    res = {"evals": 0, "transitions": 0, "states": 0, "outcomes": [], "violations": [], "rejected": 0, "samples": [], "traces": 0}
    seen = set()

    def on_v(key, what, init, hist):
        if key in seen:
            return
        seen.add(key)
        res["violations"].append({"key": key, "what": "%s, history %s: %s" % (item["name"], hist, what), "detail": {"history": hist}})
    st = explorer.bfs(System(item), BOUNDS[item["tier"]]["depth"], on_v)
    res["states"] = st["states"]
    res["transitions"] = st["transitions"]
    res["evals"] = st["executions"]
    res["traces"] = st["executions"]
    res["outcomes"] = ["%s#%d" % (item["name"], i) for i in range(st["outcomes"])]
    res["samples"] = [{"signature": item["name"], "states": st["states"], "max_depth": st["max_depth"]}]
    return res
