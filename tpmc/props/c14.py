"""C14 -- conditions are isolated from each other and repeatable."""
import itertools
import numpy as np
import torch
import torchphysics as tp
from torchphysics.problem.spaces import Points, Space

PROP = "C14"
LEVEL = "model_checking"
TECHNIQUE = ("exhaustive enumeration of all interleavings of construct/evaluate events of 2-3 conditions that share user objects "
             "(data-function dict, domains, model), each executed in a fresh world and compared with the same condition "
             "constructed and evaluated alone (differential oracle, bit-equal losses)")
RULE = ("condition menu {PINN static grid, PINN non-static grid, PINN static other size, Periodic static, Periodic non-static, "
        "IntegroPINN, HPM-at-sampler, DeepRitz static}; all pairs with events (construct, evaluate, evaluate) and all triples "
        "with (construct, evaluate): every interleaving in which a condition is constructed before it is evaluated; distinct "
        "by (set of conditions, interleaving)")
ASSUMPTIONS = ["samplers are deterministic grids, so a condition's k-th loss alone is a fixed number",
               "isolation is judged by bit-equality of losses and by identity/content of the user's dict"]
BOUNDS = {"quick": {"triples": 12}, "thorough": {"triples": 10 ** 6}}
ITEM_LIMIT = {"quick": 900, "thorough": 3600}

X, T, U = Space({"x": 1}), Space({"t": 1}), Space({"u": 1})
MENU = ["pinn_static4", "pinn_grid3", "pinn_static5", "periodic_static", "periodic_grid", "periodic_empty_static", "integro", "hpm",
        "ritz_static", "pinn_dom_t", "pinn_dom_k", "pinn_shared_prod", "pinn_shared_alone", "pinn_defaults", "don_a", "don_b"]


class World:
    """the user's shared objects"""
    def __init__(self):
        torch.manual_seed(1)
        self.model_x = tp.models.FCN(X, U, hidden=(4,))
        self.model_tx = tp.models.FCN(T * X, U, hidden=(4,))
        self.dom_x = tp.domains.Interval(X, 0.2, 1.4)
        self.dom_t = tp.domains.Interval(T, 0.0, 1.0)
        self.model_t = tp.models.FCN(T, U, hidden=(3,))
        # ONE parameter-dependent domain, partially evaluated differently by two conditions
        self.dom_tk = tp.domains.Interval(X, 0.0, lambda t, k: 1.0 + t + k)
        # ONE sampler object used by two conditions (alone, and as first factor of a product)
        self.shared_sampler = tp.samplers.ExponentialIntervalSampler(self.dom_x, 4, exponent=2.0)
        # two data functions and the residual share the keyword name k with DIFFERENT defaults
        self.data_k = {"f": lambda x, k=2.0: k * x, "h": lambda x, k=5.0: k * x}
        self.data_t = {"g": lambda t: 3.0 * t + 1.0}
        self.data_t_orig = dict(self.data_t)
        self.f = lambda x: x ** 2 + 1.0
        self.g = lambda t, x: 3.0 * t + x
        self.data = {"f": self.f}                 # ONE dict object handed to every condition
        self.data_tx = {"g": self.g}
        self.seen = {}                            # condition name -> list of recorded residual arguments
        self._don = None

    def deeponet(self):
        if self._don is None:
            from torchphysics.models.deeponet.branchnets import FCBranchNet
            from torchphysics.models.deeponet.trunknets import FCTrunkNet
            from torchphysics.models.deeponet.deeponet import DeepONet
            from torchphysics.problem.spaces import FunctionSpace
            torch.manual_seed(4)
            fs = FunctionSpace(tp.domains.Interval(T, 0, 1), Space({"e": 1}))
            ds = tp.samplers.GridSampler(fs.input_domain, 3).make_static()
            net = DeepONet(FCTrunkNet(X, hidden=(3,)), FCBranchNet(fs, discretization_sampler=ds, hidden=(3,)), output_space=U, output_neurons=2)
            self._don = (net, fs)
        return self._don

    def make(self, kind):
        S, Cn = tp.samplers, tp.conditions
        rec = self.seen.setdefault(kind, [])

        def res_pinn(u, f):
            rec.append({"f": f.detach().clone()})
            return u - 0.5 * f

        def res_per(u_left, u_right, g_left, g_right, x):
            rec.append({"g_left": g_left.detach().clone(), "g_right": g_right.detach().clone(), "x": x.detach().clone()})
            return (u_left - u_right) + 0.1 * g_left - 0.2 * g_right

        def res_int(u, u_integral, f):
            rec.append({"f": f.detach().clone()})
            return u - u_integral.mean(dim=1, keepdim=False) + 0.0 * f if False else (u[:, 0] - u_integral.mean(dim=1)) * 1.0 + 0.3 * f[:, 0]

        def res_hpm(x, f):
            rec.append({"f": f.detach().clone()})
            return x * 0.5 - 0.25 * f
        def res_per_t(u_left, u_right, g_left, g_right):
            rec.append({"g_left": g_left.detach().clone(), "g_right": g_right.detach().clone(), "x": torch.zeros(len(g_left), 1)})
            return (u_left - u_right) + 0.1 * g_left - 0.2 * g_right
        if kind == "pinn_shared_alone":
            return Cn.PINNCondition(self.model_x, self.shared_sampler, res_pinn, data_functions=self.data, name=kind)
        if kind == "pinn_shared_prod":
            def res_sp(u, x, t):
                rec.append({"f": x.detach().clone()})
                return u - x * t
            return Cn.PINNCondition(self.model_tx, self.shared_sampler * S.GridSampler(self.dom_t, 2), res_sp, name=kind)
        if kind == "pinn_defaults":
            def res_k(u, f, h, k=7.0):
                rec.append({"f": f.detach().clone(), "h": h.detach().clone(), "k": torch.as_tensor(float(k))})
                return u - 0.1 * f + 0.01 * h - 0.001 * k
            return Cn.PINNCondition(self.model_x, S.GridSampler(self.dom_x, 3), res_k, data_functions=self.data_k, name=kind)
        if kind in ("don_a", "don_b"):
            # two DeepONet conditions that share ONE network but have their own function sets
            from torchphysics.problem.domains import CustomFunctionSet
            net, fs = self.deeponet()
            k0 = 0.2 if kind == "don_a" else 0.9
            fset = CustomFunctionSet(fs, S.GridSampler(tp.domains.Interval(Space({"k": 1}), k0, k0 + 0.5), 2).make_static(),
                                     lambda k, t: torch.sin(3 * k * t) + k)

            def res_don(u, x):
                rec.append({"f": x.detach().clone()})
                return u - 0.3 * x
            return Cn.PIDeepONetCondition(net, fset, S.GridSampler(self.dom_x, 3).make_static(), res_don, name=kind)
        if kind == "periodic_empty_static":
            return Cn.PeriodicCondition(self.model_t, self.dom_t, res_per_t, non_periodic_sampler=S.PointSampler.empty(),
                                        data_functions=self.data_t, name=kind)
        if kind == "pinn_dom_t":
            return self._dom_cond(kind, {"t": torch.tensor(0.0)}, "k", rec)
        if kind == "pinn_dom_k":
            return self._dom_cond(kind, {"k": torch.tensor(1.0)}, "t", rec)
        if kind == "pinn_static4":
            return Cn.PINNCondition(self.model_x, S.GridSampler(self.dom_x, 4).make_static(), res_pinn, data_functions=self.data, name=kind)
        if kind == "pinn_grid3":
            return Cn.PINNCondition(self.model_x, S.GridSampler(self.dom_x, 3), res_pinn, data_functions=self.data, name=kind)
        if kind == "pinn_static5":
            return Cn.PINNCondition(self.model_x, S.GridSampler(self.dom_x, 5).make_static(), res_pinn, data_functions=self.data, name=kind)
        if kind == "ritz_static":
            return Cn.DeepRitzCondition(self.model_x, S.GridSampler(self.dom_x, 6).make_static(), res_pinn, data_functions=self.data, name=kind)
        if kind == "hpm":
            return Cn.HPM_EquationLoss_at_Sampler(self.model_x, S.GridSampler(self.dom_x, 4).make_static(), res_hpm, data_functions=self.data, name=kind)
        if kind == "integro":
            return Cn.IntegroPINNCondition(self.model_x, S.GridSampler(self.dom_x, 3), res_int, S.GridSampler(self.dom_x, 5),
                                           data_functions=self.data, name=kind)
        if kind == "periodic_static":
            return Cn.PeriodicCondition(self.model_tx, self.dom_t, res_per, non_periodic_sampler=S.GridSampler(self.dom_x, 3).make_static(),
                                        data_functions=self.data_tx, name=kind)
        if kind == "periodic_grid":
            return Cn.PeriodicCondition(self.model_tx, self.dom_t, res_per, non_periodic_sampler=S.GridSampler(self.dom_x, 4),
                                        data_functions=self.data_tx, name=kind)
        raise ValueError(kind)


def _dom_cond(self, kind, fixed, other, rec):
    """PINN condition on the shared domain with one variable fixed; the other one is sampled by a product sampler"""
    S, Cn = tp.samplers, tp.conditions
    dom = self.dom_tk(**fixed)
    smp = S.GridSampler(dom, 3) * S.GridSampler(tp.domains.Interval(Space({other: 1}), 0.25, 0.75), 2)

    def res(u, x):
        rec.append({"f": x.detach().clone()})
        return u - 0.5 * x
    return Cn.PINNCondition(self.model_x_only(other), smp, res, name=kind)


def _model_x_only(self, other):
    torch.manual_seed(5)
    return tp.models.FCN(X * Space({other: 1}), U, hidden=(3,))


World._dom_cond = _dom_cond
World.model_x_only = _model_x_only


def run_history(events):
    """events: list of ('c', kind) / ('e', kind).  Returns per-kind loss lists, recorded args, dict verdicts."""
    w = World()
    conds, losses, problems = {}, {}, []
    for ev, kind in events:
        try:
            if ev == "c":
                conds[kind] = w.make(kind)
            else:
                losses.setdefault(kind, []).append(float(conds[kind](device="cpu", iteration=len(losses.get(kind, [])))))
        except Exception as e:
            problems.append(("error|%s|%s" % (type(e).__name__, kind), "event %s(%s) raised %s: %s" % (ev, kind, type(e).__name__, str(e)[:120])))
            losses.setdefault(kind, []).append(None)
        for name, d, orig in (("data", w.data, {"f": w.f}), ("data_tx", w.data_tx, {"g": w.g}), ("data_t", w.data_t, dict(w.data_t_orig))):
            if list(d.keys()) != list(orig.keys()) or any(d[k] is not orig[k] for k in orig):
                problems.append(("user-dict-modified", "after event %s(%s) the user's data_functions dict holds %s instead of the user's function" % (
                    ev, kind, {k: type(v).__name__ for k, v in d.items()})))
    return losses, w.seen, problems


def interleavings(seqs):
    """all merges of the given event sequences preserving each sequence's order"""
    if all(len(s) == 0 for s in seqs):
        yield []
        return
    for i, s in enumerate(seqs):
        if s:
            rest = seqs[:i] + [s[1:]] + seqs[i + 1:]
            for tail in interleavings(rest):
                yield [s[0]] + tail


def items(tier):
    out = []
    for pair in itertools.combinations(MENU, 2):
        out.append({"name": "pair|%s|%s" % pair, "kinds": list(pair), "evals": 2, "tier": tier})
    triples = list(itertools.combinations(MENU, 3))
    step = max(1, len(triples) // BOUNDS[tier]["triples"]) if tier == "quick" else 1
    for tr in triples[::step]:
        out.append({"name": "triple|%s|%s|%s" % tr, "kinds": list(tr), "evals": 1, "tier": tier, "cost": 3})
    out.append({"name": "periodic-sides", "kinds": [], "evals": 0, "tier": tier})
    return out


def run_item(item):
    res = {"evals": 0, "transitions": 0, "states": [], "outcomes": [], "violations": [], "rejected": 0, "samples": [], "traces": 0}
    seen = set()

    def viol(key, what):
        if key in seen:
            return
        seen.add(key)
        res["violations"].append({"key": key, "what": what, "detail": {"item": item["name"]}})

    if item["name"] == "periodic-sides":
        for kind in ("periodic_static", "periodic_grid", "periodic_empty_static"):
            losses, rec, problems = run_history([("c", kind), ("e", kind), ("e", kind)])
            res["evals"] += 2
            res["transitions"] += 3
            res["states"].append(kind)
            for k, msg in problems:
                viol("C14|%s" % k, msg)
            for r in rec.get(kind, []):
                x = r["x"]
                exp_l = 3.0 * 0.0 + x + (1.0 if kind == "periodic_empty_static" else 0.0)
                exp_r = 3.0 * 1.0 + x + (1.0 if kind == "periodic_empty_static" else 0.0)
                if r["g_left"].shape != exp_l.shape or not torch.allclose(r["g_left"], exp_l):
                    viol("C14|periodic-left-data|%s" % kind, "%s: g_left passed to the residual is %s, g(t_left=0, x) = %s" % (kind, r["g_left"].reshape(-1).tolist(), exp_l.reshape(-1).tolist()))
                if r["g_right"].shape != exp_r.shape or not torch.allclose(r["g_right"], exp_r):
                    viol("C14|periodic-right-data|%s" % kind, "%s: g_right passed to the residual is %s, g(t_right=1, x) = %s" % (kind, r["g_right"].reshape(-1).tolist(), exp_r.reshape(-1).tolist()))
            if len(losses.get(kind, [])) == 2 and kind == "periodic_static" and losses[kind][0] != losses[kind][1]:
                viol("C14|not-repeatable|%s" % kind, "%s evaluated twice without an optimisation step: %s" % (kind, losses[kind]))
            res["outcomes"].append(kind)
        # data functions / residual with the same keyword name and different defaults keep their own defaults
        losses, rec, problems = run_history([("c", "pinn_defaults"), ("e", "pinn_defaults")])
        res["evals"] += 1
        res["states"].append("pinn_defaults")
        for k, msg in problems:
            viol("C14|%s" % k, msg)
        xs = tp.samplers.GridSampler(World().dom_x, 3).sample_points().as_tensor
        for r in rec.get("pinn_defaults", []):
            if not torch.allclose(r["f"], 2.0 * xs) or not torch.allclose(r["h"], 5.0 * xs) or abs(float(r["k"]) - 7.0) > 1e-9:
                viol("C14|shared-keyword-default", "data functions f(x,k=2), h(x,k=5) and residual(...,k=7) of ONE condition: f=%s (2x=%s), h=%s (5x=%s), k=%s" % (
                    r["f"].reshape(-1).tolist(), (2 * xs).reshape(-1).tolist(), r["h"].reshape(-1).tolist(), (5 * xs).reshape(-1).tolist(), float(r["k"])))
            else:
                res["outcomes"].append("pinn_defaults")
        return res

    kinds = item["kinds"]
    alone = {}
    for k in kinds:
        losses, rec, problems = run_history([("c", k)] + [("e", k)] * item["evals"])
        alone[k] = (losses.get(k), [{a: v.clone() for a, v in r.items()} for r in rec.get(k, [])])
        for key, msg in problems:
            viol("C14|%s|alone" % key, "%s alone: %s" % (k, msg))
        if "static" in k and item["evals"] == 2 and losses.get(k) and losses[k][0] != losses[k][1]:
            viol("C14|not-repeatable|%s" % k, "%s evaluated twice without an optimisation step: %s" % (k, losses[k]))
    seqs = [[("c", k)] + [("e", k)] * item["evals"] for k in kinds]
    for hist in interleavings(seqs):
        res["traces"] += 1
        res["transitions"] += len(hist)
        res["evals"] += 1
        label = " ".join("%s:%s" % (e, k) for e, k in hist)
        res["states"].append(label)
        losses, rec, problems = run_history(hist)
        ok = True
        for key, msg in problems:
            viol("C14|%s" % key, "history [%s]: %s" % (label, msg))
            ok = False
        for k in kinds:
            if losses.get(k) != alone[k][0]:
                first = next((e2 for e2 in hist if e2[1] != k), None)
                viol("C14|loss-depends-on-company|%s" % k, "history [%s]: losses of %s are %s, constructed and evaluated alone they are %s" % (
                    label, k, losses.get(k), alone[k][0]))
                ok = False
            else:
                ra = alone[k][1]
                rr = rec.get(k, [])
                for a_, b_ in zip(ra, rr):
                    for name in a_:
                        if name in b_ and (a_[name].shape != b_[name].shape or not torch.equal(a_[name], b_[name])):
                            viol("C14|data-depends-on-company|%s" % k, "history [%s]: data function value %s seen by %s differs from the one it sees alone" % (label, name, k))
                            ok = False
        if ok:
            res["outcomes"].append(label + "|" + item["name"])
    res["samples"] = [{"conditions": kinds, "interleavings": res["traces"]}]
    return res
