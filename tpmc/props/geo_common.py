"""helpers shared by the geometric drivers (C01, C05, C06, C10, C11, C17, C18)"""
import itertools
import os
import numpy as np
import torch
from torchphysics.problem.spaces import Points, Space

from ..ref import geom as G
from ..ref import build as Bd
from ..ref import lattice as L

TOL_FAR = 1e-3      # x scale: "farther than a small tolerance from the boundary"
TOL_ON = 1e-4       # x scale: samples must satisfy the reference predicate within this


def theta_rows(fv, values=L.TH):
    """all single parameter rows on the lattice for free variables fv -> list of dicts"""
    fv = sorted(fv)
    if not fv:
        return [{}]
    if len(fv) == 1:
        return [{fv[0]: v} for v in values]
    return [dict(zip(fv, c)) for c in itertools.product(values, repeat=len(fv))]


def vals_of_theta(theta, n):
    return {v: np.full((n, 1), float(x)) for v, x in theta.items()}


def hull_box(a, thetas):
    """reference box over all parameter rows -> (D,2)"""
    boxes = []
    for th in thetas:
        boxes.append(G.ref_box(a, vals_of_theta(th, 1))[0])
    b = np.stack(boxes)
    return np.stack([b[..., 0].min(0), b[..., 1].max(0)], 1)


def scale_of(box):
    ext = box[:, 1] - box[:, 0]
    return float(max(1.0, np.linalg.norm(ext), np.abs(box).max()))


def lattice_points(box, inflate=0.25, m2=17, m1=33, m3=9):
    d = len(box)
    ext = box[:, 1] - box[:, 0]
    lo = box[:, 0] - inflate * ext
    hi = box[:, 1] + inflate * ext
    m = {1: m1, 2: m2, 3: m3}.get(d, 5)
    axes = [np.linspace(lo[i], hi[i], m) for i in range(d)]
    return np.stack(np.meshgrid(*axes, indexing="ij"), -1).reshape(-1, d)


def split_space(a, pts):
    """(n, D) array -> var -> (n, dim) for the expression's space"""
    out, c = {}, 0
    for v, dim in G.space_vars(a):
        out[v] = pts[:, c:c + dim]
        c += dim
    return out


def space_order(a):
    return [v for v, _ in G.space_vars(a)]


def is_deliberate(e):
    """deliberate, message-carrying refusals of the library (answers, not alarms)"""
    r = _is_deliberate(e)
    if r and os.environ.get("TPMC_REJLOG"):
        try:
            with open(os.environ["TPMC_REJLOG"], "a") as fh:
                import traceback
                fr = [f for f in traceback.extract_tb(e.__traceback__) if "/torchphysics/" in f.filename]
                chain = " < ".join("%s:%s" % (f.filename.split("/")[-1], f.name) for f in reversed(fr[-4:]))
                fh.write("%s | %s | %s\n" % (type(e).__name__, chain, " ".join(str(e).split())[:160]))
        except Exception:
            pass
    return r


def _is_deliberate(e):
    if isinstance(e, NotImplementedError):
        return True
    if isinstance(e, ValueError) and "density" in str(e).lower():
        return True
    if isinstance(e, AssertionError) and "is necessary in" in str(e) and "but not given" in str(e):
        # "argument X is necessary ... but not given": the harnesses supply every free variable of an expression (or fix
        # it by a call), so this message means that the library LOST a binding -- not a refusal
        return False
    if isinstance(e, AssertionError) and len(str(e)) > 15:
        return True
    if isinstance(e, RuntimeError) and "valid point for the filter" in str(e):
        return True
    return False


def exc_sig(e):
    import traceback
    tb = traceback.extract_tb(e.__traceback__)
    site = "?"
    for fr in reversed(tb):
        if "/torchphysics/" in fr.filename:
            site = "%s:%s" % (fr.filename.split("/torchphysics/")[-1], fr.name)
            break
    return "%s@%s" % (type(e).__name__, site)


def kind_sig(a):
    """coarse class of an expression for finding keys: constructor skeleton without numbers"""
    k = a["k"]
    if k in G.PRIMS:
        flav = ""
        if k in ("para", "tri"):
            v = G.prim_vertices(a, {x: np.zeros((1, 1)) for x in G.free_vars(a)}, 1)[0]
            cw = G.loop_area(v) < 0
            axis = k == "para" and abs(np.dot(v[1] - v[0], [0, 1])) < 1e-12 and abs(np.dot(v[3] - v[0], [1, 0])) < 1e-12
            flav = ("cw" if cw else "") + ("" if axis else "slanted" if k == "para" else "")
        return k + (":" + flav if flav else "")
    if k in ("union", "cut", "inter", "prod"):
        return "%s(%s,%s)" % (k, kind_sig(a["a"]), kind_sig(a["b"]))
    if k in ("translate", "rotate"):
        return "%s(%s)" % (k, kind_sig(a["a"]))
    return "%s(%s)" % (k, kind_sig(a["a"]))


def top_sig(a):
    """the node kinds down to the first primitive along the left spine, e.g. boundary/cut"""
    out = []
    while True:
        out.append(a["k"])
        if a["k"] in G.PRIMS:
            break
        a = a["a"]
        if len(out) >= 3:
            break
    return "/".join(out)


def has_kind(a, kinds):
    if a["k"] in kinds:
        return True
    return any(has_kind(v, kinds) for v in a.values() if isinstance(v, dict))


def leaf_flavors(a):
    """set of primitive flavours inside the expression"""
    if a["k"] in G.PRIMS:
        return {kind_sig(a)}
    out = set()
    for v in a.values():
        if isinstance(v, dict):
            out |= leaf_flavors(v)
    return out
