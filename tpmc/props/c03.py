"""C03 -- differential operators equal the analytic derivatives, row by row."""
import itertools
import numpy as np
import sympy as sp
import torch
from torchphysics.utils import differentialoperators as do

PROP = "C03"
LEVEL = "model_checking"
TECHNIQUE = ("bounded-exhaustive enumeration of differentiable programs (all expression trees up to the tier's depth over "
             "{coordinates, constant} x {+, *, sin, exp, square}, deduplicated symbolically) x operators x ordered choices of "
             "derivative variables x batch shapes x precisions; oracle = sympy derivative evaluated in float64")
RULE = ("all trees of depth <= d over the leaves of a variable layout, deduplicated by sympy canonical form; every operator "
        "with every non-empty ordered selection of derivative variables it accepts; batch shapes (1,), (4,), (2,3); float32 "
        "and float64; distinct by (layout, program, operator, variables); non-trivial when the analytic result is not "
        "identically zero on the evaluation lattice")
ASSUMPTIONS = ["sympy differentiation + float64 evaluation is the oracle; rtol 1e-4 (float32) / 1e-9 (float64)",
               "smooth programs only (no relu/abs); evaluation on a fixed lattice of 4 rows per batch"]
BOUNDS = {"quick": {"depth": {"x1": 2, "x1t": 2, "x2": 1, "x2t": 1, "x3": 1, "xyz": 1, "x2tp": 1}, "chunk": 60},
          "thorough": {"depth": {"x1": 2, "x1t": 2, "x2": 2, "x2t": 2, "x3": 2, "xyz": 2, "x2tp": 1}, "chunk": 60}}
ITEM_LIMIT = {"quick": 900, "thorough": 3600}

LAYOUTS = {"x1": [("x", 1)], "x1t": [("x", 1), ("t", 1)], "x2": [("x", 2)], "x2t": [("x", 2), ("t", 1)], "x3": [("x", 3)],
           "xyz": [("x", 1), ("y", 1), ("z", 1)], "x2tp": [("x", 2), ("t", 1), ("p", 1)]}     # three and more derivative variables
UN = ("sin", "exp", "sq")
BIN = ("add", "mul")


def leaves(layout):
    out = []
    for v, d in LAYOUTS[layout]:
        for i in range(d):
            out.append(("var", v, i))
    out.append(("const", 2.0))
    return out


def sym_of(tree, syms):
    k = tree[0]
    if k == "var":
        return syms[(tree[1], tree[2])]
    if k == "const":
        return sp.Float(tree[1])
    if k == "sin":
        return sp.sin(sym_of(tree[1], syms))
    if k == "exp":
        return sp.exp(sym_of(tree[1], syms) / 2)
    if k == "sq":
        return sym_of(tree[1], syms) ** 2
    if k == "add":
        return sym_of(tree[1], syms) + sym_of(tree[2], syms)
    return sym_of(tree[1], syms) * sym_of(tree[2], syms)


def torch_of(tree, coords):
    k = tree[0]
    if k == "var":
        c = coords[tree[1]]
        # a one-dimensional variable is used as it is (the INPUT tensor itself, as in `u - t`), not through a view
        return c if c.shape[-1] == 1 else c.narrow(-1, tree[2], 1)
    if k == "const":
        any_c = next(iter(coords.values()))
        return torch.full(any_c.shape[:-1] + (1,), tree[1], dtype=any_c.dtype)
    if k == "sin":
        return torch.sin(torch_of(tree[1], coords))
    if k == "exp":
        return torch.exp(torch_of(tree[1], coords) / 2)
    if k == "sq":
        return torch_of(tree[1], coords) ** 2
    if k == "add":
        return torch_of(tree[1], coords) + torch_of(tree[2], coords)
    return torch_of(tree[1], coords) * torch_of(tree[2], coords)


def show(tree):
    k = tree[0]
    if k == "var":
        return "%s%d" % (tree[1], tree[2])
    if k == "const":
        return "2"
    if k in UN:
        return "%s(%s)" % (k, show(tree[1]))
    return "(%s %s %s)" % (show(tree[1]), "+" if k == "add" else "*", show(tree[2]))


_POOL = {}


def programs(layout, depth):
    key = (layout, depth)
    if key in _POOL:
        return _POOL[key]
    syms = symbols(layout)
    level = list(leaves(layout))
    seen = {}
    for t in level:
        seen[sp.srepr(sym_of(t, syms))] = t
    cur = list(level)
    for _ in range(depth):
        new = []
        for t in cur:
            for u in UN:
                new.append((u, t))
        for a, b in itertools.combinations_with_replacement(cur, 2):
            for o in BIN:
                new.append((o, a, b))
        for t in new:
            r = sp.srepr(sym_of(t, syms))
            if r not in seen:
                seen[r] = t
        cur = list(seen.values())
    out = list(seen.values())
    _POOL[key] = out
    return out


def symbols(layout):
    return {(v, i): sp.Symbol("%s%d" % (v, i)) for v, d in LAYOUTS[layout] for i in range(d)}


def items(tier):
    out = []
    ch = BOUNDS[tier]["chunk"]
    for layout, depth in BOUNDS[tier]["depth"].items():
        n = len(programs(layout, depth))
        for s in range(0, n, ch):
            out.append({"name": "scalar|%s|%d-%d" % (layout, s, min(n, s + ch)), "kind": "scalar", "layout": layout, "depth": depth,
                        "lo": s, "hi": min(n, s + ch), "tier": tier, "cost": 5})
    for layout in ("x2", "x2t", "x3", "x1t", "xyz", "x2tp"):
        out.append({"name": "vector|%s" % layout, "kind": "vector", "layout": layout, "tier": tier, "cost": 8})
    return out


def lattice(layout, shape, dtype):
    """coordinates var -> tensor shape + (dim,), deterministic distinct values in (-0.9, 1.1)"""
    n = int(np.prod(shape))
    coords = {}
    c = 0
    for v, d in LAYOUTS[layout]:
        vals = np.array([[((0.37 * (r + 1) + 0.21 * (c + j + 1) + 0.113 * (r + 1) * (c + j + 1)) % 2.0) - 0.9 for j in range(d)] for r in range(n)])
        coords[v] = torch.tensor(vals.reshape(tuple(shape) + (d,)), dtype=dtype, requires_grad=True)
        c += d
    return coords


def np_of(coords, layout):
    """flat dict symbol name -> (n,) float64"""
    out = {}
    for v, d in LAYOUTS[layout]:
        a = coords[v].detach().double().numpy().reshape(-1, d)
        for i in range(d):
            out["%s%d" % (v, i)] = a[:, i]
    return out


def evalf(exprs, syms_list, npvals):
    f = sp.lambdify(syms_list, exprs, "numpy")
    res = f(*[npvals[str(s)] for s in syms_list])
    n = len(next(iter(npvals.values())))
    return [np.broadcast_to(np.asarray(r, dtype=np.float64), (n,)).copy() for r in res]


def close(got, exp, dtype):
    rtol, atol = (1e-4, 1e-5) if dtype == torch.float32 else (1e-9, 1e-10)
    return np.allclose(got, exp, rtol=rtol, atol=atol * max(1.0, np.abs(exp).max() if exp.size else 1.0))


def run_item(item):
    res = {"evals": 0, "transitions": 0, "states": [], "outcomes": [], "violations": [], "rejected": 0, "samples": []}
    seen = set()

    def viol(key, what, detail=None):
        if key in seen:
            return
        seen.add(key)
        res["violations"].append({"key": key, "what": what, "detail": detail or {"item": item["name"]}})
    layout = item["layout"]
    syms = symbols(layout)
    sl = [syms[(v, i)] for v, d in LAYOUTS[layout] for i in range(d)]
    vars_ = [v for v, _ in LAYOUTS[layout]]
    dims = dict(LAYOUTS[layout])
    shapes = [(1,), (4,), (2, 3)]

    def run_op(opname, fn, exp_fn, coords, shape, dtype, prog, vsel, shape_tag):
        """fn() -> tensor; exp_fn() -> expected ndarray of the same shape"""
        res["evals"] += 1
        res["transitions"] += 1
        sig = "%s(%s)" % (opname, ",".join(vsel))
        try:
            got = fn()
        except Exception as e:
            return ("error", type(e).__name__, "%s raised %s: %s" % (sig, type(e).__name__, str(e)[:110]))
        exp = exp_fn()
        g = got.detach().double().numpy()
        if g.shape != exp.shape:
            return ("shape", "", "%s returned shape %s, expected %s" % (sig, g.shape, exp.shape))
        if not np.isfinite(g).all() or not close(g, exp, dtype):
            i = np.unravel_index(np.argmax(np.abs(g - exp)), g.shape)
            return ("value", "", "%s = %.8g at entry %s, analytic value %.8g" % (sig, g[i], i, exp[i]))
        return None

    if item["kind"] == "scalar":
        progs = programs(layout, item["depth"])[item["lo"]:item["hi"]]
        for prog in progs:
            e = sym_of(prog, syms)
            first = [sp.diff(e, s) for s in sl]
            second = [[sp.diff(f, s) for s in sl] for f in first]
            third = [sp.diff(second[i][i], sl[i]) for i in range(len(sl))]
            flat = [e] + first + [x for row in second for x in row] + third
            pname = show(prog)
            for dtype in (torch.float32, torch.float64):
                for shape in shapes:
                    coords = lattice(layout, shape, dtype)
                    npv = np_of(coords, layout)
                    ev = evalf(flat, sl, npv)
                    n = int(np.prod(shape))
                    ns = len(sl)
                    F = {s: ev[1 + i] for i, s in enumerate(sl)}
                    S = {(sl[i], sl[j]): ev[1 + ns + i * ns + j] for i in range(ns) for j in range(ns)}
                    T3 = {sl[i]: ev[1 + ns + ns * ns + i] for i in range(ns)}
                    cols = {v: [syms[(v, i)] for i in range(dims[v])] for v in vars_}
                    st = "%s|%s|%s|%s" % (layout, pname, str(dtype)[6:], shape)
                    res["states"].append(st)
                    nontrivial = False
                    for r in range(1, len(vars_) + 1):
                        for vsel in itertools.permutations(vars_, r):
                            u = torch_of(prog, coords)
                            # grad
                            exp = np.stack([F[s] for v in vsel for s in cols[v]], -1).reshape(tuple(shape) + (-1,))
                            bad = run_op("grad", lambda: do.grad(u, *[coords[v] for v in vsel]), lambda: exp, coords, shape, dtype, prog, vsel, shape)
                            nontrivial |= bool(np.abs(exp).max() > 0)
                            if bad:
                                _report(viol, "grad", bad, layout, pname, dtype, shape, vsel, prog, syms, e)
                            # laplacian
                            u = torch_of(prog, coords)
                            exp = sum(S[(s, s)] for v in vsel for s in cols[v]).reshape(tuple(shape) + (1,))
                            bad = run_op("laplacian", lambda: do.laplacian(u, *[coords[v] for v in vsel]), lambda: exp, coords, shape, dtype, prog, vsel, shape)
                            if bad:
                                _report(viol, "laplacian", bad, layout, pname, dtype, shape, vsel, prog, syms, e)
                            # laplacian with a precomputed gradient (single variable)
                            if len(vsel) == 1:
                                u = torch_of(prog, coords)
                                try:
                                    g0 = torch.autograd.grad(u.sum(), coords[vsel[0]], create_graph=True, allow_unused=True)[0] if u.requires_grad else None
                                except Exception:
                                    g0 = None
                                if g0 is not None:
                                    bad = run_op("laplacian[grad=]", lambda: do.laplacian(u, coords[vsel[0]], grad=g0), lambda: exp, coords, shape, dtype, prog, vsel, shape)
                                    if bad:
                                        _report(viol, "laplacian[grad=]", bad, layout, pname, dtype, shape, vsel, prog, syms, e)
                            # normal derivative with a fixed direction field
                            u = torch_of(prog, coords)
                            tot = sum(dims[v] for v in vsel)
                            nrm = torch.tensor(np.array([[((0.3 + 0.17 * (r_ + 1) * (j + 2)) % 1.0) - 0.5 for j in range(tot)] for r_ in range(n)]).reshape(tuple(shape) + (tot,)), dtype=dtype)
                            gexp = np.stack([F[s] for v in vsel for s in cols[v]], -1)
                            exp_n = (gexp * nrm.double().numpy().reshape(n, tot)).sum(-1).reshape(tuple(shape) + (1,))
                            bad = run_op("normal_derivative", lambda: do.normal_derivative(u, nrm, *[coords[v] for v in vsel]), lambda: exp_n, coords, shape, dtype, prog, vsel, shape)
                            if bad:
                                _report(viol, "normal_derivative", bad, layout, pname, dtype, shape, vsel, prog, syms, e)
                    # partial derivatives w.r.t. one-dimensional variables, orders 1..3, mixed order 2
                    one_d = [v for v in vars_ if dims[v] == 1]
                    for v in one_d:
                        s = syms[(v, 0)]
                        for order, expv in ((1, F[s]), (2, S[(s, s)]), (3, T3[s])):
                            u = torch_of(prog, coords)
                            exp = expv.reshape(tuple(shape) + (1,))
                            bad = run_op("partial", lambda: do.partial(u, *([coords[v]] * order)), lambda: exp, coords, shape, dtype, prog, [v] * order, shape)
                            if bad:
                                _report(viol, "partial", bad, layout, pname, dtype, shape, [v] * order, prog, syms, e)
                    for v, w in itertools.permutations(one_d, 2):
                        u = torch_of(prog, coords)
                        exp = S[(syms[(v, 0)], syms[(w, 0)])].reshape(tuple(shape) + (1,))
                        bad = run_op("partial", lambda: do.partial(u, coords[v], coords[w]), lambda: exp, coords, shape, dtype, prog, [v, w], shape)
                        if bad:
                            _report(viol, "partial", bad, layout, pname, dtype, shape, [v, w], prog, syms, e)
                    # row independence: the batched gradient equals the gradients of the rows evaluated alone
                    if shape == (4,):
                        u = torch_of(prog, coords)
                        try:
                            full = do.grad(u, *[coords[v] for v in vars_]).detach()
                            for r_ in range(4):
                                c1 = {v: coords[v][r_:r_ + 1].detach().clone().requires_grad_(True) for v in vars_}
                                one = do.grad(torch_of(prog, c1), *[c1[v] for v in vars_]).detach()
                                if not torch.allclose(one, full[r_:r_ + 1], rtol=1e-6, atol=1e-7):
                                    viol("C03|row-dependence|grad", "%s, u=%s: the gradient of row %d evaluated alone is %s, inside the batch %s" % (
                                        layout, pname, r_, one.tolist(), full[r_:r_ + 1].tolist()))
                        except Exception:
                            pass
                    if nontrivial:
                        res["outcomes"].append(st)
        res["samples"] = [{"layout": layout, "programs": [show(p) for p in progs[:3]]}]
        return res

    # ---------------------------------------------------------------- vector operators ----
    pool = programs(layout, 1)
    D = sum(dims.values())
    tuples = []
    for i in range(len(pool)):
        tuples.append(tuple(pool[(i + k) % len(pool)] for k in ([0, 1, 5][:D] if D <= 3 else [0, 1, 5, 7])))
    for comps in tuples:
        es = [sym_of(c, syms) for c in comps]
        J = [[sp.diff(e, s) for s in sl] for e in es]
        flat = [x for row in J for x in row]
        pname = "(" + ", ".join(show(c) for c in comps) + ")"
        for dtype in (torch.float32, torch.float64):
            for shape in ((1,), (4,)):
                coords = lattice(layout, shape, dtype)
                npv = np_of(coords, layout)
                ev = evalf(flat, sl, npv)
                n = int(np.prod(shape))
                m = len(es)
                Jn = np.stack(ev, -1).reshape(n, m, len(sl))
                st = "%s|%s|%s|%s" % (layout, pname, str(dtype)[6:], shape)
                res["states"].append(st)

                def U():
                    return torch.cat([torch_of(c, coords) for c in comps], -1)
                vs = list(vars_)
                for vsel in itertools.permutations(vs, len(vs)):
                    colidx = [sl.index(syms[(v, i)]) for v in vsel for i in range(dims[v])]
                    Jsel = Jn[:, :, colidx]
                    u = U()
                    bad = run_op("jac", lambda: do.jac(u, *[coords[v] for v in vsel]), lambda: Jsel, coords, shape, dtype, comps, vsel, shape)
                    if bad:
                        _report(viol, "jac", bad, layout, pname, dtype, shape, vsel, comps, syms, None)
                    u = U()
                    bad = run_op("div", lambda: do.div(u, *[coords[v] for v in vsel]), lambda: np.trace(Jsel, axis1=1, axis2=2).reshape(n, 1), coords, shape, dtype, comps, vsel, shape)
                    if bad:
                        _report(viol, "div", bad, layout, pname, dtype, shape, vsel, comps, syms, None)
                    u = U()
                    bad = run_op("sym_grad", lambda: do.sym_grad(u, *[coords[v] for v in vsel]), lambda: 0.5 * (Jsel + np.transpose(Jsel, (0, 2, 1))), coords, shape, dtype, comps, vsel, shape)
                    if bad:
                        _report(viol, "sym_grad", bad, layout, pname, dtype, shape, vsel, comps, syms, None)
                    u = U()
                    field = torch.tensor(np.array([[((0.3 + 0.17 * (r_ + 1) * (j + 2)) % 1.0) - 0.5 for j in range(m)] for r_ in range(n)]), dtype=dtype)
                    bad = run_op("convective", lambda: do.convective(u, field, *[coords[v] for v in vsel]),
                                 lambda: np.einsum("nij,nj->ni", Jsel, field.double().numpy()), coords, shape, dtype, comps, vsel, shape)
                    if bad:
                        _report(viol, "convective", bad, layout, pname, dtype, shape, vsel, comps, syms, None)
                    # an operator applied ON TOP of the convective term with the field itself as flow, div((u.grad)u):
                    # the flow field is part of the graph and must be differentiated as well
                    if m == len(colidx):
                        ssel = [sl[c] for c in colidx]
                        conv = [sum(sp.diff(es[i], ssel[j]) * es[j] for j in range(m)) for i in range(m)]
                        dconv = sum(sp.diff(conv[i], ssel[i]) for i in range(m))
                        exp_dc = evalf([dconv], sl, npv)[0].reshape(n, 1)
                        u = U()
                        bad = run_op("div(convective)", lambda: do.div(do.convective(u, u, *[coords[v] for v in vsel]), *[coords[v] for v in vsel]),
                                     lambda: exp_dc, coords, shape, dtype, comps, vsel, shape)
                        if bad:
                            _report(viol, "div(convective)", bad, layout, pname, dtype, shape, vsel, comps, syms, None)
                    if D == 3 and len(vsel) == 1:
                        u = U()
                        curl = np.stack([Jsel[:, 2, 1] - Jsel[:, 1, 2], Jsel[:, 0, 2] - Jsel[:, 2, 0], Jsel[:, 1, 0] - Jsel[:, 0, 1]], -1)
                        bad = run_op("rot", lambda: do.rot(u, *[coords[v] for v in vsel]), lambda: curl, coords, shape, dtype, comps, vsel, shape)
                        if bad:
                            _report(viol, "rot", bad, layout, pname, dtype, shape, vsel, comps, syms, None)
                    # matrix divergence: rows = the vector field and a shifted copy
                    def M():
                        u_ = U()
                        return torch.stack([u_, torch.roll(u_, 1, -1)], 1)
                    rolled = np.roll(Jsel, 1, axis=1)
                    exp_md = np.stack([np.trace(Jsel, axis1=1, axis2=2), np.trace(rolled, axis1=1, axis2=2)], -1)
                    mm = M()
                    bad = run_op("matrix_div", lambda: do.matrix_div(mm, *[coords[v] for v in vsel]), lambda: exp_md, coords, shape, dtype, comps, vsel, shape)
                    if bad:
                        _report(viol, "matrix_div", bad, layout, pname, dtype, shape, vsel, comps, syms, None)
                res["outcomes"].append(st)
    res["samples"] = [{"layout": layout, "vector_fields": len(tuples)}]
    return res


def _dep(prog, syms, e, vsel, layout):
    """how the program depends on the derivative variables: 'independent' / 'linear' / 'nonlinear'"""
    if e is None:
        return ""
    dims = dict(LAYOUTS[layout])
    kinds = []
    for v in vsel:
        ss = [syms[(v, i)] for i in range(dims[v])]
        if not any(e.has(s) for s in ss):
            kinds.append("independent")
        elif all(sp.diff(e, s, 2) == 0 and all(sp.diff(e, s, s2) == 0 for s2 in ss) for s in ss):
            kinds.append("linear")
        else:
            kinds.append("nonlinear")
    for k in ("independent", "linear"):
        if k in kinds:
            return k
    return "nonlinear"


def _report(viol, op, bad, layout, pname, dtype, shape, vsel, prog, syms, e):
    kind, exc, msg = bad
    dep = _dep(prog, syms, e, vsel, layout)
    batch = "batch%dd" % len(shape)
    multi = "multi-var" if len(vsel) > 1 else "single-var"
    if kind == "error":
        key = "C03|error|%s|%s|%s|%s" % (op, exc, dep or multi, batch)
    else:
        key = "C03|%s|%s|%s|%s" % (kind, op, multi, batch)
    viol(key, "layout %s, u=%s, %s, batch shape %s: %s" % (layout, pname, str(dtype)[6:], shape, msg),
         {"layout": layout, "program": pname, "operator": op, "variables": list(vsel), "shape": list(shape)})
