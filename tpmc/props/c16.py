"""C16 -- data loaders deliver every datum with intact input/target pairing."""
import itertools
import math
import numpy as np
import torch
import torchphysics as tp
from torchphysics.problem.spaces import Points, Space
from torchphysics.utils.data.dataloader import PointsDataLoader
from torchphysics.utils.data.deeponet_dataloader import DeepONetDataLoader

from ..kernel.seam import Seam

PROP = "C16"
LEVEL = "model_checking"
TECHNIQUE = ("exhaustive enumeration of loader configurations (data-set sizes x batch sizes x shuffle permutations x drop_last x "
             "trunk layouts) with identity-coded data; every batch of one pass is checked against the explicit list of "
             "(function, location) pairs of the reference model")
RULE = ("PointsDataLoader: N in 1..9 x batch 1..10 x {no shuffle, every permutation script (all N! for N<=4, id/reverse/rotate "
        "above)} x drop_last x 1..3 paired tensors; DeepONetDataLoader: Nb,Nt in 1..B x branch/trunk batch in {-1,1..B+1} x shuffle "
        "scripts x both trunk layouts; DataCondition(use_full_dataset) for norms 1,2,inf; distinct by configuration; "
        "non-trivial when more than one batch was produced")
ASSUMPTIONS = ["reference model: explicit list of identity-coded pairs", "num_workers = 0 (single process)"]
BOUNDS = {"quick": {"N": 9, "B": 4}, "thorough": {"N": 12, "B": 8}}
ITEM_LIMIT = {"quick": 900, "thorough": 3600}


def items(tier):
    out = []
    for N in range(1, BOUNDS[tier]["N"] + 1):
        out.append({"name": "points|N=%d" % N, "kind": "points", "N": N, "tier": tier, "cost": N})
    B = BOUNDS[tier]["B"]
    for nb in range(1, B + 1):
        for nt in range(1, B + 1):
            for layout in ("shared", "unique"):
                out.append({"name": "deeponet|%s|Nb=%d|Nt=%d" % (layout, nb, nt), "kind": "deeponet", "nb": nb, "nt": nt,
                            "layout": layout, "tier": tier, "cost": nb * nt})
    out.append({"name": "datacondition", "kind": "datacond", "tier": tier, "cost": 20})
    return out


def perm_scripts(n, full_upto=4):
    if n <= full_upto:
        return [("PERM", list(p)) for p in itertools.permutations(range(n))]
    return ["ID", "REV", "ROT"]


from torchphysics.problem.conditions.condition import HPCMCondition


class IdModel(tp.models.Model):
    """returns the first input column (the id) as output u"""
    def __init__(self):
        super().__init__(Space({"x": 1}), Space({"u": 1}))

    def forward(self, points):
        points = self._fix_points_order(points)
        return Points(points.as_tensor[..., :1] * 1.0, self.output_space)


def run_item(item):
    res = {"evals": 0, "transitions": 0, "states": [], "outcomes": [], "violations": [], "rejected": 0, "samples": [], "traces": 0}
    seen = set()

    def viol(key, what, detail=None):
        if key in seen:
            return
        seen.add(key)
        res["violations"].append({"key": key, "what": what, "detail": detail or {"item": item["name"]}})

    if item["kind"] == "points":
        N = item["N"]
        for bs in range(1, max(11, N + 2)):
            for ntens in (1, 2, 3):
                for drop in (False, True):
                    for sh in [None] + perm_scripts(N):
                        cfg = "N=%d bs=%d tensors=%d drop_last=%s shuffle=%s" % (N, bs, ntens, drop, sh)
                        res["states"].append(cfg)
                        data = [Points(torch.arange(N, dtype=torch.float32).reshape(N, 1) + 1000.0 * j, Space({"v%d" % j: 1}))
                                for j in range(ntens)]
                        try:
                            # later permutation draws (there must be none: the data set is shuffled ONCE, at construction)
                            # would be answered by a rotation, so a re-shuffle per pass changes the order
                            with Seam(dict([(0, sh)] + [(j_, "ROT") for j_ in range(1, 6)]) if sh is not None else {}) as sm_:
                                ld = PointsDataLoader(tuple(data) if ntens > 1 else data[0], batch_size=bs, shuffle=sh is not None, drop_last=drop)
                                batches = [b for b in ld]
                                ln = len(ld)
                                second = [b for b in ld]
                            draws = sum(1 for c_ in sm_.calls if c_[0] == "randperm")
                            first_ids = [x for b in batches for x in b[0].as_tensor[:, 0].tolist()]
                            second_ids = [x for b in second for x in b[0].as_tensor[:, 0].tolist()]
                            if first_ids != second_ids or draws > (1 if sh is not None else 0):
                                viol("C16|points|reshuffled-per-pass", "%s: a second pass over the loader shows the order %s after %s (%d permutation draw(s) in total)" % (
                                    cfg, second_ids, first_ids, draws))
                                continue
                        except Exception as e:
                            viol("C16|points|error|%s" % type(e).__name__, "%s raised %s: %s" % (cfg, type(e).__name__, str(e)[:100]))
                            continue
                        res["transitions"] += len(batches)
                        res["evals"] += 1
                        ids = []
                        ok = True
                        for b in batches:
                            if len(b) != ntens:
                                viol("C16|points|tuple", "%s: batch has %d tensors" % (cfg, len(b)))
                                ok = False
                                break
                            rows = [t.as_tensor for t in b]
                            m = len(rows[0])
                            if m > bs or m == 0:
                                viol("C16|points|batch-size", "%s: a batch has %d rows" % (cfg, m))
                                ok = False
                            base = rows[0][:, 0]
                            for j, r in enumerate(rows):
                                if len(r) != m or not torch.equal(r[:, 0] - 1000.0 * j, base):
                                    viol("C16|points|pairing", "%s: row ids of tensor %d are %s, of tensor 0 %s" % (
                                        cfg, j, (r[:, 0] - 1000.0 * j).tolist(), base.tolist()))
                                    ok = False
                            ids += [int(x) for x in base.tolist()]
                        if not ok:
                            continue
                        if ln != len(batches):
                            viol("C16|points|len", "%s: len(loader)=%d but one pass yields %d batches" % (cfg, ln, len(batches)))
                        want = set(range(N))
                        if drop:
                            keep = (N // bs) * bs
                            if len(ids) != keep or len(set(ids)) != keep:
                                viol("C16|points|coverage-drop-last", "%s: one pass shows ids %s, expected %d distinct ones" % (cfg, sorted(ids), keep))
                                continue
                        elif set(ids) != want or len(ids) != N:
                            viol("C16|points|coverage", "%s: one pass shows ids %s" % (cfg, sorted(ids)))
                            continue
                        if sh is not None and not drop and isinstance(sh, tuple):
                            if ids != list(sh[1]):
                                viol("C16|points|shuffle-order", "%s: order %s does not follow the permutation" % (cfg, ids))
                                continue
                        if len(batches) > 1:
                            res["outcomes"].append(cfg)
        res["samples"] = [{"loader": "PointsDataLoader", "N": N}]
        return res

    if item["kind"] == "deeponet":
        nb, nt, layout = item["nb"], item["nt"], item["layout"]
        B = BOUNDS[item["tier"]]["B"]
        sizes = [-1] + list(range(1, B + 2))
        bspace, tspace, ospace = Space({"f": 1}), Space({"x": 1}), Space({"u": 1})
        branch = (torch.arange(nb, dtype=torch.float32).reshape(nb, 1, 1) * torch.ones(1, 2, 1))
        if layout == "shared":
            trunk = torch.arange(nt, dtype=torch.float32).reshape(nt, 1)
        else:
            trunk = (10.0 * torch.arange(nb, dtype=torch.float32).reshape(nb, 1, 1) + torch.arange(nt, dtype=torch.float32).reshape(1, nt, 1))
        outd = (100.0 * torch.arange(nb, dtype=torch.float32).reshape(nb, 1, 1) + torch.arange(nt, dtype=torch.float32).reshape(1, nt, 1))
        shuffles = [(False, False)]
        for st in perm_scripts(nt, 3):
            shuffles.append((False, st))
        for sb in perm_scripts(nb, 3):
            shuffles.append((sb, False))
        shuffles.append(("REV", "ROT"))
        for bb in sizes:
            for tb in sizes:
                for sb, st in shuffles:
                    cfg = "%s Nb=%d Nt=%d branch_batch=%d trunk_batch=%d shuffle_branch=%s shuffle_trunk=%s" % (layout, nb, nt, bb, tb, sb, st)
                    res["states"].append(cfg)
                    script = {}
                    idx = 0
                    if st:
                        script[idx] = st
                        idx += 1
                    if sb:
                        script[idx] = sb
                    try:
                        with Seam(script):
                            ld = DeepONetDataLoader(branch.clone(), trunk.clone(), outd.clone(), bspace, tspace, ospace, bb, tb,
                                                    shuffle_branch=bool(sb), shuffle_trunk=bool(st))
                            ln = len(ld)
                            batches = [b for b in ld]
                    except Exception as e:
                        viol("C16|deeponet|error|%s|%s" % (type(e).__name__, layout), "%s raised %s: %s" % (cfg, type(e).__name__, str(e)[:100]))
                        continue
                    res["transitions"] += len(batches)
                    res["evals"] += 1
                    pairs = set()
                    ok = True
                    for b in batches:
                        bi, ti, oi = (t.as_tensor for t in b)
                        fa = bi[:, 0, 0]
                        na = len(fa)
                        if layout == "shared":
                            loc = ti[:, 0].reshape(1, -1).expand(na, -1)
                        else:
                            loc = ti[:, :, 0] - 10.0 * fa.reshape(-1, 1)
                            if ti.shape[0] != na:
                                viol("C16|deeponet|pairing|unique-trunk-rows", "%s: trunk batch has %d functions, branch batch %d" % (cfg, ti.shape[0], na))
                                ok = False
                                break
                        nbt = loc.shape[1]
                        if (bb > 0 and na > bb) or (tb > 0 and nbt > tb) or na == 0 or nbt == 0:
                            viol("C16|deeponet|batch-size|%s" % layout, "%s: batch of %d functions x %d locations" % (cfg, na, nbt))
                            ok = False
                            break
                        if (loc < -0.5).any() or (loc > nt - 0.5).any() or not torch.equal(loc, loc.round()):
                            viol("C16|deeponet|pairing|trunk-of-other-function", "%s: trunk rows do not belong to the branch functions %s: %s" % (cfg, fa.tolist(), ti.reshape(na if layout != 'shared' else 1, -1).tolist()))
                            ok = False
                            break
                        exp = 100.0 * fa.reshape(-1, 1) + loc
                        if tuple(oi.shape[:2]) != (na, nbt) or not torch.equal(oi[:, :, 0], exp):
                            viol("C16|deeponet|pairing|%s" % layout, "%s: output block %s does not belong to functions %s x locations %s" % (
                                cfg, oi[..., 0].tolist() if oi.dim() == 3 else tuple(oi.shape), fa.tolist(), loc[0].tolist()))
                            ok = False
                            break
                        for a_ in range(na):
                            for c_ in range(nbt):
                                pairs.add((int(fa[a_]), int(loc[a_, c_])))
                    if not ok:
                        continue
                    if ln != len(batches):
                        viol("C16|deeponet|len|%s" % layout, "%s: len(loader)=%d, one pass yields %d batches" % (cfg, ln, len(batches)))
                    if len(pairs) != nb * nt:
                        nbat = math.ceil(nb / (bb if bb > 0 else nb))
                        ntat = math.ceil(nt / (tb if tb > 0 else nt))
                        qual = "gcd>1" if (layout == "shared" and math.gcd(nbat, ntat) > 1) else "other"
                        viol("C16|deeponet|coverage|%s|%s" % (layout, qual), "%s: one pass presents %d of %d (function, location) pairs" % (cfg, len(pairs), nb * nt))
                        continue
                    if len(batches) > 1:
                        res["outcomes"].append(cfg)
        # the batch sizes of a loader may be changed afterwards (len() re-reads them): the next pass follows the NEW sizes and still
        # presents every pair
        for bb in [s_ for s_ in sizes if s_ > 0]:
            for tb in [s_ for s_ in sizes if s_ > 0]:
                for bb2, tb2 in ((bb, max(1, tb - 1)), (max(1, bb - 1), tb), (bb + 1, tb + 1)):
                    if (bb2, tb2) == (bb, tb) or bb2 > nb or tb2 > nt:
                        continue          # sizes above the data-set size are clamped by the constructor only
                    cfg = "%s Nb=%d Nt=%d batch sizes (%d,%d) changed to (%d,%d) after construction" % (layout, nb, nt, bb, tb, bb2, tb2)
                    res["states"].append(cfg)
                    res["evals"] += 1
                    try:
                        ld = DeepONetDataLoader(branch.clone(), trunk.clone(), outd.clone(), bspace, tspace, ospace, bb, tb)
                        _first = [b for b in ld]
                        ld.dataset.branch_batch_size, ld.dataset.trunk_batch_size = bb2, tb2
                        ln2 = len(ld)
                        second = [b for b in ld]
                    except Exception as e:
                        viol("C16|deeponet|error|%s|resize|%s" % (type(e).__name__, layout), "%s raised %s: %s" % (cfg, type(e).__name__, str(e)[:100]))
                        continue
                    res["transitions"] += len(second)
                    seen_pairs = set()
                    too_big = False
                    for b in second:
                        o = b[2].as_tensor
                        if o.shape[0] > min(bb2, nb) or o.shape[1] > min(tb2, nt):
                            too_big = True
                        seen_pairs.update(int(round(v)) for v in o.reshape(-1).tolist())
                    want_pairs = {100 * i + j for i in range(nb) for j in range(nt)}
                    if too_big or ln2 != len(second) or seen_pairs != want_pairs:
                        viol("C16|deeponet|resize|%s" % layout, "%s: the next pass has %d batches (len %d), %s, and presents %d of %d pairs" % (
                            cfg, len(second), ln2, "a batch larger than requested" if too_big else "sizes ok", len(seen_pairs & want_pairs), len(want_pairs)))
                    else:
                        res["outcomes"].append(cfg)
        res["samples"] = [{"loader": "DeepONetDataLoader", "layout": layout, "Nb": nb, "Nt": nt}]
        return res

    # ---- data with MORE axes than (datum, column): every datum is an (M, d) block (operator-learning layout); batches keep the
    #      blocks whole and paired
    for N, M, d, bs in ((4, 5, 2, 3), (3, 4, 1, 2), (5, 3, 3, 5)):
        cfg = "blocks N=%d M=%d d=%d bs=%d" % (N, M, d, bs)
        res["states"].append(cfg)
        base = torch.arange(N * M * d, dtype=torch.float32).reshape(N, M, d)
        data = (Points(base.clone(), Space({"a": d})), Points(base.clone() + 5000.0, Space({"b": d})))
        try:
            ld = PointsDataLoader(data, batch_size=bs)
            batches = [b for b in ld]
        except Exception as e:
            viol("C16|points|error|%s|blocks" % type(e).__name__, "%s raised %s: %s" % (cfg, type(e).__name__, str(e)[:100]))
            continue
        res["evals"] += 1
        res["transitions"] += len(batches)
        got_a = torch.cat([b[0].as_tensor for b in batches], 0) if all(b[0].as_tensor.dim() == 3 for b in batches) else None
        got_b = torch.cat([b[1].as_tensor for b in batches], 0) if got_a is not None and all(b[1].as_tensor.dim() == 3 for b in batches) else None
        if got_a is None or got_b is None or got_a.shape != base.shape or not torch.equal(got_a, base) or not torch.equal(got_b, base + 5000.0) or \
                any(len(b[0].as_tensor) > bs for b in batches):
            viol("C16|points|blocks", "%s: the batches have shapes %s and do not reproduce the data blocks in order" % (cfg, [tuple(b[0].as_tensor.shape) for b in batches]))
        else:
            res["outcomes"].append(cfg)

    # ---- the user's containers: a LIST of Points handed to a shuffling loader is left as it was, and a second loader built
    #      from the same list afterwards still delivers the user's rows in the user's order
    for N in (3, 5):
        for bs in (2, 5):
            cfg = "user-list N=%d bs=%d" % (N, bs)
            res["states"].append(cfg)
            ids = torch.arange(N, dtype=torch.float32).reshape(N, 1)
            user = [Points(ids.clone(), Space({"x": 1})), Points(10.0 + ids.clone(), Space({"u": 1}))]
            kept = [pp.as_tensor.clone() for pp in user]
            with Seam({0: "REV"}):
                ld1 = PointsDataLoader(user, batch_size=bs, shuffle=True)
            ld2 = PointsDataLoader(user, batch_size=bs, shuffle=False)
            res["evals"] += 1
            res["transitions"] += 2
            if len(user) != 2 or any(not torch.equal(pp.as_tensor, kk) for pp, kk in zip(user, kept)):
                viol("C16|points|user-list-modified", "%s: after building a shuffling loader the user's list holds %s" % (cfg, [pp.as_tensor.reshape(-1).tolist() for pp in user]))
                continue
            first = next(iter(ld2))
            if not torch.equal(first[0].as_tensor.reshape(-1), ids.reshape(-1)[:bs]):
                viol("C16|points|second-loader-order", "%s: an unshuffled loader built from the same list afterwards starts with rows %s" % (cfg, first[0].as_tensor.reshape(-1).tolist()))
            else:
                res["outcomes"].append(cfg)

    # ---- DataCondition(use_full_dataset=True) aggregates every batch exactly once ----------
    #      the same for the other conditions with a full-data-set mode: HPM_EquationLoss_at_DataPoints (per-batch value =
    #      mean squared residual) and HPCMCondition (per-batch value = |state - target - correction|)
    for ckind in ("data", "hpm", "hpcm"):
      for N in range(1, 8):
        for bs in range(1, 9):
            for norm in (1, 2, "inf"):
                for root in (1.0, 2.0):
                    for drop in (False, True):
                        if drop and N // bs == 0:
                            continue
                        if ckind != "data" and (drop or N > 5 or bs > 6):
                            continue
                        cfg = "%sN=%d bs=%d norm=%s root=%s drop_last=%s" % ("" if ckind == "data" else ckind + " ", N, bs, norm, root, drop)
                        res["states"].append(cfg)
                        ids = torch.arange(N, dtype=torch.float32).reshape(N, 1)
                        d = (ids % 3 + 1.0) * 0.5 + ids * 0.01
                        x = Points(ids.clone(), Space({"x": 1}))
                        y = Points(ids - d, Space({"u": 1}))
                        ld = PointsDataLoader((x, y), batch_size=bs, drop_last=drop)
                        if ckind == "data":
                            cond = tp.conditions.DataCondition(IdModel(), ld, norm=norm, root=root, use_full_dataset=True)
                        elif ckind == "hpm":
                            cond = tp.conditions.HPM_EquationLoss_at_DataPoints(
                                IdModel(), ld, norm, lambda x: (x % 3 + 1.0) * 0.5 + x * 0.01, root=root, use_full_dataset=True)
                        else:
                            cond = HPCMCondition(IdModel(), IdModel(), ld, lambda u: Points(0.0 * u, Space({"u": 1})),
                                                 norm=norm, root=root, use_full_dataset=True)
                        res["evals"] += 1
                        res["transitions"] += 1
                        try:
                            val = float(cond())
                            val2 = float(cond())
                        except Exception as e:
                            viol("C16|%scondition|error|%s" % (ckind, type(e).__name__), "%s raised %s: %s" % (cfg, type(e).__name__, str(e)[:100]))
                            continue
                        dd = d[:, 0].double().numpy()
                        keep = N if not drop else (N // bs) * bs
                        chunks = [dd[i:i + bs] for i in range(0, keep, bs)]
                        if ckind == "hpm":
                            chunks = [np.array([np.mean(c ** 2)]) for c in chunks]      # one value per batch
                        if norm == "inf":
                            exp = max(c.max() for c in chunks)
                        else:
                            exp = float(np.mean([np.mean(c ** norm) for c in chunks]))
                        exp = exp ** (1 / root)
                        if abs(val - exp) > 1e-5 * max(1, abs(exp)):
                            viol("C16|%scondition|value|%s" % (ckind, norm), "%s: full-data-set loss %.6f, aggregation over every batch once gives %.6f" % (cfg, val, exp))
                        elif abs(val2 - val) > 1e-7:
                            viol("C16|datacondition|not-repeatable", "%s: second evaluation %.6f differs from the first %.6f" % (cfg, val2, val))
                        elif len(chunks) > 1:
                            res["outcomes"].append(cfg)
                        # one batch per call: call j presents batch j mod (number of batches), in the data set's order
                        if root == 1.0 and not drop and N <= 5:
                            if ckind == "data":
                                c2 = tp.conditions.DataCondition(IdModel(), ld, norm=norm, root=root, use_full_dataset=False)
                            elif ckind == "hpm":
                                c2 = tp.conditions.HPM_EquationLoss_at_DataPoints(
                                    IdModel(), ld, norm, lambda x: (x % 3 + 1.0) * 0.5 + x * 0.01, root=root, use_full_dataset=False)
                            else:
                                c2 = HPCMCondition(IdModel(), IdModel(), ld, lambda u: Points(0.0 * u, Space({"u": 1})),
                                                   norm=norm, root=root, use_full_dataset=False)
                            try:
                                got = [float(c2()) for _ in range(2 * len(chunks) + 1)]
                            except Exception as e:
                                viol("C16|%scondition|error|%s" % (ckind, type(e).__name__), "%s (one batch per call) raised %s: %s" % (cfg, type(e).__name__, str(e)[:100]))
                                continue
                            res["transitions"] += len(got)
                            per = [float(c.max()) if norm == "inf" else float(np.mean(c ** norm)) for c in chunks]
                            want = [per[j % len(per)] for j in range(len(got))]
                            if any(abs(g - w) > 1e-5 * max(1, abs(w)) for g, w in zip(got, want)):
                                viol("C16|%scondition|batch-sequence|%s" % (ckind, norm), "%s, one batch per call: successive losses %s, the batches in order (cycling) give %s" % (
                                    cfg, [round(g, 5) for g in got], [round(w, 5) for w in want]))
    res["samples"] = [{"condition": "DataCondition(use_full_dataset=True)"}]
    return res
