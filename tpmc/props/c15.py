"""C15 -- static and adaptive samplers follow their documented state machines."""
import itertools
import math
import os
import re
import shutil
import subprocess
import tempfile
import numpy as np
import torch
import torchphysics as tp
from torchphysics.problem.spaces import Points, Space
from torchphysics.problem.samplers import PointSampler

from ..kernel import explorer
from ..kernel.seam import Seam
from ..ref import geom as G
from ..ref import build as Bd
from ..ref import lattice as L

PROP = "C15"
LEVEL = "model_checking"
TECHNIQUE = ("(A) explicit-state BFS over call histories of the real StaticSampler against a reference state machine; "
             "(B) TLC model checking of the documented protocol (models/StaticSampler.tla) with the COMPLETE dumped state graph "
             "replayed edge by edge against the implementation; (C) exhaustive loss vectors / ratios / random answers for the "
             "adaptive samplers against a bit-exact reference")
RULE = ("A: all histories up to the tier's length over {sample_points(), sample_points(device=str/obj), next(), make_static(r)} "
        "from intervals {1,2,3,inf}; B: every edge of TLC's reachable graph (MaxSteps 6 quick / 8 thorough); C: n in {3,4}, all "
        "loss vectors in {0,1,2}^n x ratios {0,.25,.5,1} (threshold) / rand scripts {NET,ZERO,ONE,HALF} (random) x 3-call "
        "histories; distinct = model states reached / (loss vector, ratio) pairs")
ASSUMPTIONS = ["the wrapped sampler of engine A/B is a ticket sampler returning Points([[ticket]]) so a fresh draw is observable",
               "next(sampler) hands out the held set without counting as an iteration (as implemented; not covered by the documentation)",
               "TLC 1.8 on PATH for engine B (if it is missing the evidence says so and engines A and C still decide)"]
BOUNDS = {"quick": {"history": 8, "tlc_steps": 6, "n": [3, 4]}, "thorough": {"history": 13, "tlc_steps": 10, "n": [3, 4, 5]}}
ITEM_LIMIT = {"quick": 900, "thorough": 3600}
INTERVALS = [1, 2, 3, math.inf]
HOME = os.environ.get("TPMC_HOME", "/verif")


class Ticket(PointSampler):
    def __init__(self):
        super().__init__(n_points=1)
        self.t = 0

    def sample_points(self, params=Points.empty(), device="cpu", **kw):
        self.t += 1
        return Points(torch.tensor([[float(self.t)]]), Space({"x": 1}))


def tick(p):
    return int(round(float(p.as_tensor.reshape(-1)[0])))


# ----------------------------------------------------------------- engine A ---------------
class StaticSystem:
    def __init__(self, r0):
        self.r0 = r0

    def initial(self):
        return [self.r0]

    def enabled(self, m):
        return [("sample",), ("sample_dev_str",), ("sample_dev_obj",), ("next",)] + [("make_static", r) for r in INTERVALS]

    def canon(self, m):
        return tuple(m)

    def build(self, r0, hist):
        inner = Ticket()
        s = inner.make_static(r0)
        cached, uses, interval, fresh = 0, 0, r0, 0
        verdicts = []
        for i, op in enumerate(hist):
            last = i == len(hist) - 1
            k = op[0]
            if k == "make_static":
                s2 = s.make_static(op[1])
                if s2 is not s and last:
                    verdicts.append(("C15|make-static-new-object", "make_static on a static sampler returned another object"))
                s = s2
                interval = op[1]
                continue
            if k == "next":
                out = next(s)
                if cached:
                    exp = cached
                else:
                    fresh += 1
                    cached, uses, exp = fresh, 1, fresh
            else:
                if k == "sample":
                    out = s.sample_points()
                elif k == "sample_dev_str":
                    out = s.sample_points(device="cpu")
                else:
                    out = s.sample_points(device=torch.device("cpu"))
                if cached and uses < interval:
                    uses += 1
                    exp = cached
                else:
                    fresh += 1
                    cached, uses, exp = fresh, 1, fresh
            got = tick(out)
            if got != exp and last:
                verdicts.append(("C15|static-protocol|%s" % k,
                                 "initial interval %s, history %s: call returned point set #%d, the documented protocol gives #%d "
                                 "(set in use %d time(s), interval %s)" % (r0, hist, got, exp, uses, interval)))
            if got != exp:
                return s, None, verdicts
            if inner.t != fresh and last:
                verdicts.append(("C15|static-extra-draws", "history %s: wrapped sampler drew %d times, protocol %d" % (hist, inner.t, fresh)))
        return s, (cached, uses, interval if interval != math.inf else 99, fresh), verdicts


# ----------------------------------------------------------------- engine B ---------------
def run_tlc(max_steps):
    """-> (nodes: id -> state dict, edges: [(src, dst, label)], init ids, stats) or None if TLC is unavailable"""
    if not shutil.which("tlc"):
        return None
    tmp = tempfile.mkdtemp(prefix="tpmc_tlc_")
    try:
        shutil.copy(os.path.join(HOME, "models", "StaticSampler.tla"), tmp)
        with open(os.path.join(tmp, "StaticSampler.cfg"), "w") as f:
            f.write("CONSTANTS\n  Intervals = {1, 2, 3, 99}\n  MaxSteps = %d\nINIT Init\nNEXT Next\nINVARIANT TypeOK\nINVARIANT FreshIsNewest\n" % max_steps)
        dot = os.path.join(tmp, "graph.dot")
        p = subprocess.run(["tlc", "-workers", "1", "-noGenerateSpecTE", "-metadir", os.path.join(tmp, "meta"), "-deadlock",
                            "-dump", "dot,actionlabels", dot, "-config", "StaticSampler.cfg", "StaticSampler.tla"],
                           cwd=tmp, capture_output=True, text=True, timeout=900)
        out = p.stdout + p.stderr
        if "No error has been found" not in out:
            return {"error": out[-1500:]}
        m = re.search(r"(\d+) states generated, (\d+) distinct states found", out)
        nodes, edges, inits = {}, [], []
        for line in open(dot):
            line = line.strip()
            em = re.match(r'(-?\d+) -> (-?\d+) \[label="([A-Za-z]+)(\(\d+\))?"', line)
            if em:
                edges.append((em.group(1), em.group(2), em.group(3)))
                continue
            nm = re.match(r'(-?\d+) \[label="([^"]*)"(.*)\]', line)
            if nm:
                st = {k: int(v) for k, v in re.findall(r"(\w+) = (\d+)", nm.group(2))}
                nodes[nm.group(1)] = st
                if "style = filled" in nm.group(3):
                    inits.append(nm.group(1))
        return {"nodes": nodes, "edges": edges, "inits": inits, "generated": int(m.group(1)), "distinct": int(m.group(2))}
    finally:
        shutil.rmtree(tmp, ignore_errors=True)


def conformance(graph, on_v):
    """replay EVERY edge of the TLC graph on the real StaticSampler"""
    nodes, edges = graph["nodes"], graph["edges"]
    out_edges = {}
    for s, d, lab in edges:
        out_edges.setdefault(s, []).append((d, lab))
    # a shortest history reaching every node
    path = {i: [] for i in graph["inits"]}
    queue = list(graph["inits"])
    while queue:
        s = queue.pop(0)
        for d, lab in out_edges.get(s, ()):
            if d not in path:
                path[d] = path[s] + [(s, d, lab)]
                queue.append(d)
    replayed = 0

    def apply(smp, src, dst, lab):
        if lab == "MakeStatic":
            r = nodes[dst]["interval"]
            smp.make_static(math.inf if r == 99 else r)
            return None
        if lab == "NextItem":
            return tick(next(smp))
        return tick(smp.sample_points())
    for s, d, lab in edges:
        if s not in path:
            continue
        r0 = nodes[path[s][0][0] if path[s] else s]["interval"]
        inner = Ticket()
        smp = inner.make_static(math.inf if r0 == 99 else r0)
        try:
            for e in path[s]:
                apply(smp, *e)
            got = apply(smp, s, d, lab)
        except Exception as e:
            on_v("C15|tlc-conformance|error|%s" % type(e).__name__, "replaying TLC edge %s raised %s" % (lab, e))
            continue
        replayed += 1
        exp = nodes[d]["last"]
        if got is not None and got != exp:
            hist = [e[2] + ("(%s)" % nodes[e[1]]["interval"] if e[2] == "MakeStatic" else "") for e in path[s]] + [lab]
            on_v("C15|tlc-conformance|%s" % lab, "TLC edge %s from state %s: the implementation returned point set #%d, the model #%d (history %s)" % (
                lab, nodes[s], got, exp, hist))
        if inner.t != nodes[d]["fresh"]:
            on_v("C15|tlc-conformance|draws|%s" % lab, "TLC edge %s into %s: wrapped sampler drew %d times, model %d" % (lab, nodes[d], inner.t, nodes[d]["fresh"]))
    return replayed


# ----------------------------------------------------------------- engine C ---------------
def adaptive_item(item, res, on_v):
    n, dom, variant = item["n"], item["dom"], item["variant"]
    a = {"I01": L.I01, "SQ": L.SQ, "C_t": L.C_MOVE, "C_t2": L.C_MOVE}[dom]
    fv = sorted(G.free_vars(a))
    rows = [0.0, 1.0] if dom == "C_t2" else [0.5]          # C_t2: two parameter rows, n points each
    prm = Bd.params_points({v: rows for v in fv}) if fv else Points.empty()
    nloss = n * (len(rows) if fv else 1)
    losses = list(itertools.product([0.0, 1.0, 2.0], repeat=nloss))
    ratios = [0.0, 0.25, 0.5, 1.0] if variant == "threshold" else ["NET", "ZERO", "ONE", "HALF"]
    S = tp.samplers
    for l2 in losses:
        for ratio in ratios:
            l3 = tuple(reversed(l2))
            res["states"].append("%s|n=%d|%s|%s|%s" % (variant, n, dom, l2, ratio))
            # reference run: the same sequence of random draws on a plain RandomUniformSampler
            with Seam({} if variant == "threshold" else ({2: ratio, 4: ratio} if ratio != "NET" else {})) as sm:
                # draws: call1 F1 ; call2 F2 [, u2] ; call3 F3 [, u3]   (calls of the seam are counted per rand call)
                ref = S.RandomUniformSampler(Bd.build_tp(a), n_points=n)
                F1 = ref.sample_points(prm).as_tensor.clone()
                ncall1 = len(sm.calls)
            # the index of the rand_like call depends on how many draws one fresh sample needs
            script = {}
            if variant == "random" and ratio != "NET":
                script = {2 * ncall1: ratio, 3 * ncall1 + 1: ratio}
            with Seam(script):
                ref = S.RandomUniformSampler(Bd.build_tp(a), n_points=n)
                F1 = ref.sample_points(prm).as_tensor.clone()
                F2 = ref.sample_points(prm).as_tensor.clone()
                u2 = torch.rand_like(torch.tensor(l2)) if variant == "random" else None
                F3 = ref.sample_points(prm).as_tensor.clone()
                u3 = torch.rand_like(torch.tensor(l3)) if variant == "random" else None

            def keepmask(loss, u):
                loss = torch.tensor(loss)
                mx, mn = loss.max(), loss.min()
                thr = mn + (mx - mn) * (ratio if variant == "threshold" else u)
                return ~(loss < thr)          # kept <=> loss at or above the threshold
            k2 = keepmask(l2, u2)
            E2 = torch.where(k2[:, None], F1, F2)
            k3 = keepmask(l3, u3)
            E3 = torch.where(k3[:, None], E2, F3)
            # real run
            res["transitions"] += 3
            res["evals"] += 1
            try:
                with Seam(script):
                    if variant == "threshold":
                        smp = S.AdaptiveThresholdRejectionSampler(Bd.build_tp(a), resample_ratio=ratio, n_points=n)
                    else:
                        smp = S.AdaptiveRandomRejectionSampler(Bd.build_tp(a), n_points=n)
                    P1 = smp.sample_points(None, prm).as_tensor.clone()
                    P2 = smp.sample_points(torch.tensor(l2), prm).as_tensor.clone()
                    P3 = smp.sample_points(torch.tensor(l3), prm).as_tensor.clone()
            except Exception as e:
                on_v("C15|adaptive|error|%s|%s" % (type(e).__name__, variant), "%s n=%d loss %s ratio %s raised %s: %s" % (variant, n, l2, ratio, type(e).__name__, str(e)[:100]))
                continue
            ok = True
            for name, Pn, En in (("first", P1, F1), ("second", P2, E2), ("third", P3, E3)):
                if Pn.shape != En.shape:
                    on_v("C15|adaptive|count|%s" % variant, "%s n=%d: %s call returned %d rows, expected %d" % (variant, n, name, len(Pn), len(En)))
                    ok = False
                    break
                if not torch.equal(Pn, En):
                    i = int((Pn != En).any(1).nonzero()[0])
                    kept = bool((k2 if name == "second" else k3)[i]) if name != "first" else None
                    on_v("C15|adaptive|kept-set|%s" % variant,
                         "%s sampler, n=%d, domain %s, losses %s then %s, %s %s: %s call row %d is %s, the documented rule (keep loss >= threshold: %s) gives %s" % (
                             variant, n, dom, l2, l3, "ratio" if variant == "threshold" else "random answers", ratio, name, i,
                             Pn[i].tolist(), kept, En[i].tolist()))
                    ok = False
                    break
            if ok:
                D = sum(d for _, d in G.space_vars(a))
                vals = {G.space_vars(a)[0][0]: P3[:, :D].double().numpy()}
                for v in fv:
                    vals[v] = np.repeat(np.asarray(rows, dtype=np.float64), n).reshape(-1, 1)     # row i owns points i*n..(i+1)*n-1
                    if not np.allclose(P3[:, D:].double().numpy(), vals[v]):
                        on_v("C15|adaptive|parameter-columns|%s" % variant, "%s sampler, n=%d, %d parameter rows: parameter column after three calls is %s" % (
                            variant, n, len(rows), P3[:, D:].reshape(-1).tolist()))
                if not G.member(a, vals, 1e-4).all():
                    on_v("C15|adaptive|outside|%s" % variant, "%s sampler returned a point outside the domain" % variant)
                else:
                    res["outcomes"].append("%s|%d|%s|%s|%s|%s" % (variant, n, dom, l2, ratio, k2.tolist()))


# ----------------------------------------------------------------- adaptive sampler driven by a condition ---
COND_KINDS = ["pinn", "pinn2out", "deepritz", "periodic", "integro", "hpm_sampler", "pideeponet", "pinn_nograd", "deepritz_nograd"]


def adaptive_in_condition(item, res, on_v):
    """The condition is the only caller that knows the per-point loss.  Oracle: a twin sampler object, driven by hand with the
    per-point losses recomputed independently from the points the residual function saw, must produce the very same point sets
    (both runs answer the random source identically, so any difference is a difference in the losses handed over)."""
    kind, variant, n = item["cond"], item["variant"], item["n"]
    extra = {}
    if kind.endswith("_nograd"):
        # conditions that are evaluated without tracking input gradients hand their loss over just the same
        kind, extra = kind[:-len("_nograd")], {"track_gradients": False}
    X, T, U = Space({"x": 2}), Space({"t": 1}), Space({"u": 1 if kind != "pinn2out" else 2})
    S, Cn = tp.samplers, tp.conditions
    calls = 4

    def mk_sampler():
        dom = Bd.build_tp(L.SQ) if kind != "periodic" else Bd.build_tp(L.SQ)
        if variant == "threshold":
            return S.AdaptiveThresholdRejectionSampler(dom, resample_ratio=0.5, n_points=n)
        return S.AdaptiveRandomRejectionSampler(dom, n_points=n)

    def mk_model():
        torch.manual_seed(3)
        if kind == "periodic":
            return tp.models.FCN(X * T, U, hidden=(5,))
        return tp.models.FCN(X, U, hidden=(5,))
    seen = []

    def per_point(r):
        """documented per-point loss: squared residual summed over components (plain value for mean-type conditions)"""
        r = r.detach()
        return r.reshape(len(r), -1).pow(2).sum(1) if kind != "deepritz" else r.reshape(len(r), -1)[:, 0]

    def build(model, sampler):
        if kind in ("pinn", "pinn2out"):
            def res_fn(u, x):
                seen.append(x.detach().clone())
                return u - x[:, :1] * x[:, 1:] * 3.0
            return Cn.PINNCondition(model, sampler, res_fn, **extra), (lambda x: model(Points(x, X)).as_tensor - x[:, :1] * x[:, 1:] * 3.0)
        if kind == "deepritz":
            def res_fn(u, x):
                seen.append(x.detach().clone())
                return u ** 2 + x[:, :1]
            return Cn.DeepRitzCondition(model, sampler, res_fn, **extra), (lambda x: model(Points(x, X)).as_tensor ** 2 + x[:, :1])
        if kind == "hpm_sampler":
            def res_fn(x):
                seen.append(x.detach().clone())
                return x[:, :1] - 2.0 * x[:, 1:]
            return Cn.HPM_EquationLoss_at_Sampler(model, sampler, res_fn), (lambda x: x[:, :1] - 2.0 * x[:, 1:])
        if kind == "integro":
            def res_fn(u, u_integral, x):
                seen.append(x.detach().clone().reshape(-1, 2))
                return u - u_integral.mean(dim=1, keepdim=True) * x[..., :1]        # (n, 1, 1)
            isamp = S.GridSampler(Bd.build_tp(L.C1), 4)

            def ref(x):
                xi = isamp.sample_points().as_tensor
                u = model(Points(x, X)).as_tensor
                ui = model(Points(xi, X)).as_tensor            # the same integral points for every row
                return u - ui.mean(dim=0, keepdim=True) * x[:, :1]
            return Cn.IntegroPINNCondition(model, sampler, res_fn, isamp), ref
        if kind == "pideeponet":
            from torchphysics.problem.domains.functionsets import CustomFunctionSet
            from torchphysics.problem.spaces import FunctionSpace
            from torchphysics.models.deeponet.deeponet import DeepONet
            from torchphysics.models.deeponet.trunknets import FCTrunkNet
            from torchphysics.models.deeponet.branchnets import FCBranchNet
            fs = FunctionSpace(tp.domains.Interval(T, 0, 1), Space({"e": 1}))
            torch.manual_seed(3)
            trunk = FCTrunkNet(X, hidden=(4,))
            branch = FCBranchNet(fs, discretization_sampler=S.GridSampler(fs.input_domain, 3).make_static(), hidden=(4,))
            net = DeepONet(trunk, branch, output_space=U, output_neurons=3)
            fset = CustomFunctionSet(fs, S.GridSampler(tp.domains.Interval(Space({"k": 1}), 0, 1), 2).make_static(), lambda k, t: torch.sin(3 * k * t) + k)

            def res_fn(u, x):
                seen.append(x.detach().clone()[0])
                return u - x[..., :1] * x[..., 1:] * 3.0

            def ref(x):
                net._forward_branch(fset, iteration_num=0)
                xx = x.unsqueeze(0).repeat(len(fset), 1, 1)
                r = net(Points(xx, X)).as_tensor - xx[..., :1] * xx[..., 1:] * 3.0          # (functions, points, 1)
                return r.pow(2).sum(-1).sum(0).reshape(-1, 1).sqrt()        # per_point squares again: hand it the root
            return Cn.PIDeepONetCondition(net, fset, sampler, res_fn), ref
        if kind == "periodic":
            def res_fn(u_left, u_right, x):
                seen.append(x.detach().clone())
                return u_left - u_right + x[:, :1]
            per = tp.domains.Interval(T, 0.0, 1.0)

            def ref(x):
                l = model(Points(torch.cat([x, torch.zeros(len(x), 1)], 1), X * T)).as_tensor
                r = model(Points(torch.cat([x, torch.ones(len(x), 1)], 1), X * T)).as_tensor
                return l - r + x[:, :1]
            return Cn.PeriodicCondition(model, per, res_fn, non_periodic_sampler=sampler), ref
        raise ValueError(kind)

    name = "%s|%s|n=%d" % (item["cond"], variant, n)
    res["states"].append("cond|" + name)
    model = mk_model()
    try:
        cond, ref = build(model, mk_sampler())
    except Exception as e:
        on_v("C15|adaptive-in-condition|error|%s|%s" % (type(e).__name__, kind), "%s: constructing the condition raised %s: %s" % (name, type(e).__name__, str(e)[:120]))
        return
    losses_seen = []
    smp_obj = cond.sampler if hasattr(cond, "sampler") else (cond.input_sampler if hasattr(cond, "input_sampler") else cond.non_periodic_sampler)
    orig_sp = smp_obj.sample_points

    def spy(unreduced_loss=None, *a, **k):
        losses_seen.append(None if unreduced_loss is None else unreduced_loss.detach().clone())
        return orig_sp(unreduced_loss, *a, **k) if a else orig_sp(unreduced_loss=unreduced_loss, **k)
    smp_obj.sample_points = spy
    res["evals"] += 1
    try:
        with Seam():
            for _ in range(calls):
                cond(device="cpu")
                res["transitions"] += 1
    except Exception as e:
        on_v("C15|adaptive-in-condition|error|%s|%s" % (type(e).__name__, kind), "%s: evaluating the condition %d times raised %s: %s" % (
            name, calls, type(e).__name__, str(e)[:160]))
        return
    if len(seen) != calls or any(len(s) != n for s in seen):
        on_v("C15|adaptive-in-condition|count|%s" % kind, "%s: the residual saw point sets of sizes %s in %d evaluations" % (name, [len(s) for s in seen], calls))
        return
    # hand-over: call k+1 must receive the per-point loss of call k (None for the first call)
    if losses_seen[0] is not None:
        on_v("C15|adaptive-in-condition|first-loss|%s" % kind, "%s: the first sampling call received a loss vector" % name)
    if ref is not None:
        with torch.no_grad():
            want = [per_point(ref(s)) for s in seen]
    else:
        want = None
    twin = mk_sampler()
    with Seam():
        ys = []
        for k in range(calls):
            ul = None if k == 0 else (want[k - 1] if want is not None else losses_seen[k])
            ys.append(twin.sample_points(unreduced_loss=ul).as_tensor.clone())
    for k in range(calls):
        got = losses_seen[k]
        if k > 0 and want is not None:
            if got is None or got.reshape(-1).shape != want[k - 1].shape or not torch.allclose(got.reshape(-1), want[k - 1], rtol=1e-5, atol=1e-7):
                on_v("C15|adaptive-in-condition|loss-handed-over|%s" % kind,
                     "%s: sampling call %d received %s, the per-point loss of evaluation %d is %s" % (
                         name, k + 1, None if got is None else got.reshape(-1).tolist(), k, want[k - 1].tolist()))
                return
        if k > 0 and want is None and got is None:
            on_v("C15|adaptive-in-condition|loss-handed-over|%s" % kind, "%s: sampling call %d received no loss vector" % (name, k + 1))
            return
        if not torch.equal(seen[k], ys[k][:, :2]):
            on_v("C15|adaptive-in-condition|points|%s" % kind,
                 "%s: evaluation %d used the points %s, a sampler driven with the documented per-point losses gives %s" % (
                     name, k + 1, seen[k].tolist(), ys[k].tolist()))
            return
    kept = sum(int((seen[k] == seen[k - 1]).all(1).sum()) for k in range(1, calls))
    res["outcomes"].append("cond|%s|kept=%d" % (name, kept))


def static_sum(item, res, on_v):
    """the sum of two static samplers: each part keeps its own schedule (a set is used r_a resp. r_b times)"""
    for ra, rb in itertools.product((1, 2, 3, math.inf), repeat=2):
        class TA(Ticket):
            pass
        a_, b_ = TA(), TA()
        smp = a_.make_static(resample_interval=ra) + b_.make_static(resample_interval=rb)
        got = []
        try:
            for _ in range(8):
                p = smp.sample_points()
                t = p.as_tensor.reshape(-1).tolist()
                got.append((int(round(t[0])), int(round(t[1]))))
                res["transitions"] += 1
        except Exception as e:
            on_v("C15|static-sum|error|%s" % type(e).__name__, "intervals (%s, %s): raised %s: %s" % (ra, rb, type(e).__name__, str(e)[:100]))
            continue
        want = [(1 + (i // ra if ra != math.inf else 0), 1 + (i // rb if rb != math.inf else 0)) for i in range(8)]
        res["evals"] += 1
        res["states"].append("static-sum|%s|%s" % (ra, rb))
        if got != want:
            on_v("C15|static-sum|protocol", "a.make_static(%s) + b.make_static(%s): successive calls use the point sets %s, each part's own schedule gives %s" % (ra, rb, got, want))
        else:
            res["outcomes"].append("static-sum|%s|%s" % (ra, rb))


def static_in_functionset(item, res, on_v):
    """a function set draws its parameters through its parameter sampler once per sample_params() call: with a STATIC
    parameter sampler of interval r the same parameter set is used r times, then a fresh one (the ticket sampler makes
    the draws observable)"""
    from torchphysics.problem.domains import CustomFunctionSet
    from torchphysics.problem.spaces import FunctionSpace
    for r in (1, 2, 3, math.inf):
        class KTicket(Ticket):
            def sample_points(self, params=Points.empty(), device="cpu", **kw):
                self.t += 1
                return Points(torch.tensor([[float(self.t)]]), Space({"k": 1}))
        base = KTicket()
        fs = FunctionSpace(tp.domains.Interval(Space({"t": 1}), 0, 1), Space({"e": 1}))
        fset = CustomFunctionSet(fs, base.make_static(resample_interval=r), lambda k, t: k * t)
        got = []
        try:
            for _ in range(8):
                fset.sample_params()
                got.append(tick(fset.param_batch))
                res["transitions"] += 1
        except Exception as e:
            on_v("C15|static-in-functionset|error|%s" % type(e).__name__, "interval %s: sample_params raised %s: %s" % (r, type(e).__name__, str(e)[:100]))
            continue
        want = [1 + (i // r if r != math.inf else 0) for i in range(8)]
        res["evals"] += 1
        res["states"].append("fset-static|%s" % r)
        if got != want:
            on_v("C15|static-in-functionset|protocol", "function set with a static parameter sampler of interval %s: successive sample_params() use the parameter sets %s, the documented protocol gives %s" % (r, got, want))
        else:
            res["outcomes"].append("fset-static|%s" % r)


# ----------------------------------------------------------------- driver -----------------
def items(tier):
    out = [{"name": "static|r0=%s" % r, "kind": "static", "r0": (99 if r == math.inf else r), "tier": tier, "cost": 5} for r in INTERVALS]
    out.append({"name": "tlc-conformance", "kind": "tlc", "tier": tier, "cost": 9})
    out.append({"name": "nonstatic-fresh", "kind": "nonstatic", "tier": tier})
    out.append({"name": "static-in-functionset", "kind": "fset_static", "tier": tier})
    out.append({"name": "static-sum", "kind": "static_sum", "tier": tier})
    for n in BOUNDS[tier]["n"]:
        for dom in ("I01", "SQ", "C_t"):
            for variant in ("threshold", "random"):
                out.append({"name": "adaptive|%s|%s|n=%d" % (variant, dom, n), "kind": "adaptive", "n": n, "dom": dom,
                            "variant": variant, "tier": tier, "cost": n})
    for variant in ("threshold", "random"):
        out.append({"name": "adaptive|%s|C_t2|n=2" % variant, "kind": "adaptive", "n": 2, "dom": "C_t2", "variant": variant, "tier": tier, "cost": 4})
        if tier == "thorough":
            out.append({"name": "adaptive|%s|C_t2|n=3" % variant, "kind": "adaptive", "n": 3, "dom": "C_t2", "variant": variant, "tier": tier, "cost": 6})
    for ck in COND_KINDS:
        for variant in ("threshold", "random"):
            for n in (3, 6):
                out.append({"name": "adaptive-in-condition|%s|%s|n=%d" % (ck, variant, n), "kind": "adaptive_cond", "cond": ck,
                            "variant": variant, "n": n, "tier": tier, "cost": 2})
    return out


def run_item(item):
    res = {"evals": 0, "transitions": 0, "states": [], "outcomes": [], "violations": [], "rejected": 0, "samples": [], "traces": 0,
           "extra": {}}
    seen = set()

    def on_v(key, what, init=None, hist=None):
        if key in seen:
            return
        seen.add(key)
        res["violations"].append({"key": key, "what": what, "detail": {"item": item["name"], "history": hist}})
    tier = item["tier"]
    if item["kind"] == "static":
        r0 = math.inf if item["r0"] == 99 else item["r0"]
        st = explorer.bfs(StaticSystem(r0), BOUNDS[tier]["history"], on_v)
        res["states"] = ["static|%s|%d" % (item["r0"], i) for i in range(st["states"])]
        res["transitions"] = st["transitions"]
        res["evals"] = res["traces"] = st["executions"]
        res["outcomes"] = res["states"]
        res["samples"] = [{"engine": "A", "initial_interval": item["r0"], "states": st["states"], "max_depth": st["max_depth"]}]
    elif item["kind"] == "tlc":
        g = run_tlc(BOUNDS[tier]["tlc_steps"])
        if g is None:
            res["extra"]["tlc_available"] = 0
            res["samples"] = [{"engine": "B", "note": "tlc not on PATH, engine B skipped"}]
            return res
        if "error" in g:
            on_v("C15|tlc-model-error", "TLC reported an error on models/StaticSampler.tla: %s" % g["error"][-400:])
            return res
        n = conformance(g, on_v)
        res["extra"].update({"tlc_available": 1, "tlc_states_generated": g["generated"], "tlc_distinct_states": g["distinct"],
                             "tlc_edges": len(g["edges"]), "tlc_edges_replayed_on_impl": n})
        res["states"] = ["tlc|%s" % i for i in g["nodes"]]
        res["transitions"] = len(g["edges"])
        res["traces"] = res["evals"] = n
        res["outcomes"] = ["tlc-edge|%d" % i for i in range(n)]
        res["samples"] = [{"engine": "B", "tlc_distinct_states": g["distinct"], "edges_replayed": n}]
    elif item["kind"] == "static_sum":
        static_sum(item, res, on_v)
    elif item["kind"] == "fset_static":
        static_in_functionset(item, res, on_v)
    elif item["kind"] == "adaptive_cond":
        adaptive_in_condition(item, res, on_v)
    elif item["kind"] == "nonstatic":
        S = tp.samplers
        for mk in (lambda: S.RandomUniformSampler(Bd.build_tp(L.SQ), n_points=3), lambda: S.GridSampler(Bd.build_tp(L.C1), n_points=4),
                   lambda: S.RandomUniformSampler(Bd.build_tp(L.B(L.SQ)), n_points=2)):
            smp = mk()
            calls = []
            dom = smp.domain
            for meth in ("sample_random_uniform", "sample_grid"):
                orig = getattr(dom, meth)
                setattr(dom, meth, (lambda orig, meth: lambda *a, **k: (calls.append(meth), orig(*a, **k))[1])(orig, meth))
            prev = None
            with Seam():
                for i in range(4):
                    before = len(calls)
                    p = smp.sample_points()
                    res["transitions"] += 1
                    res["evals"] += 1
                    if len(calls) != before + 1:
                        on_v("C15|nonstatic-not-fresh", "call %d of a non-static %s drew %d times from its domain" % (i, type(smp).__name__, len(calls) - before))
                    if prev is not None and isinstance(smp, S.RandomUniformSampler) and torch.equal(prev, p.as_tensor):
                        on_v("C15|nonstatic-same-points", "two consecutive calls of a non-static random sampler returned identical points")
                    prev = p.as_tensor.clone()
                    res["states"].append("nonstatic|%s|%d" % (type(smp).__name__, i))
                    res["outcomes"].append("nonstatic|%s|%d" % (type(smp).__name__, i))
    else:
        adaptive_item(item, res, on_v)
        res["samples"] = [{"engine": "C", "case": item["name"], "cases": len(res["states"])}]
    return res
