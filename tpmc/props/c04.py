"""C04 -- a condition's loss is reduce(error(residual)) on exactly its sampled points."""
import itertools
import math
import numpy as np
import torch
import torchphysics as tp
from torchphysics.problem.spaces import Points, Space, FunctionSpace
from torchphysics.utils.data.dataloader import PointsDataLoader
from torchphysics.utils.data.deeponet_dataloader import DeepONetDataLoader

from ..kernel.seam import Seam

PROP = "C04"
LEVEL = "model_checking"
TECHNIQUE = ("bounded-exhaustive enumeration of condition kinds x sampler kinds x ALL orderings of the variables in sampler space, "
             "model input space and residual signature x output dims x data functions x learnable parameter; the sampler and "
             "the residual are wrapped by recorders and the loss is recomputed in float64 from the recorded arguments")
RULE = ("condition kinds {PINN, Mean, DeepRitz, custom error/reduce, AdaptiveWeights, HPM-at-sampler, Periodic, IntegroPINN, "
        "Parameter, Data (norm 1/2/inf, root, constrain_fn, both modes), PIDeepONet, DeepONetData} x samplers {grid, random "
        "(scripted source), static, static with resample interval, product carrying a parameter variable, data sampler} x "
        "variable orders x output dim {1,2} x data functions {none, one, two, constant tensor} x parameter {none, one}; two "
        "evaluations per configuration; distinct by configuration")
ASSUMPTIONS = ["outputs passed to the residual are compared with an independent re-evaluation of the model on the recorded points",
               "derivatives taken inside the residual are compared with derivatives of that independent re-evaluation"]
BOUNDS = {"quick": {"calls": 2}, "thorough": {"calls": 5}}
ITEM_LIMIT = {"quick": 900, "thorough": 3600}

DIM = {"x": 2, "t": 1, "p": 1}
KINDS = ["pinn", "mean", "ritz", "custom", "adaptive_w", "hpm"]
SAMPLERS = ["grid", "random", "static", "static_interval2", "product_param", "data"]


def items(tier):
    out = []
    for kind in KINDS:
        for smp in SAMPLERS:
            if kind == "adaptive_w" and not smp.startswith("static"):
                continue
            out.append({"name": "single|%s|%s" % (kind, smp), "fam": "single", "kind": kind, "sampler": smp, "tier": tier, "cost": 3})
    for fam in ("periodic", "integro", "parameter", "data", "pideeponet", "deeponetdata", "actderiv"):
        out.append({"name": fam, "fam": fam, "tier": tier, "cost": 2})
    return out


def domain_of(v):
    if DIM[v] == 2:
        return tp.domains.Parallelogram(Space({v: 2}), [0.1, 0.2], [1.3, 0.4], [-0.1, 1.1])
    return tp.domains.Interval(Space({v: 1}), 0.2 if v == "t" else 1.0, 1.5 if v == "t" else 2.0)


def make_sampler(kind, order):
    """sampler whose output space lists the variables in `order`"""
    S = tp.samplers

    def one(v, n):
        if kind == "random":
            return S.RandomUniformSampler(domain_of(v), n_points=n)
        return S.GridSampler(domain_of(v), n_points=n)
    if kind == "data":
        n = 4
        coords = {}
        for j, v in enumerate(order):
            coords[v] = torch.tensor([[((0.37 * (r + 1) + 0.21 * (j + c + 1) + 0.113 * (r + 1) * (j + c + 1)) % 1.0) + 0.1 for c in range(DIM[v])] for r in range(n)], dtype=torch.float32)
        return S.DataSampler(coords)
    smp = one(order[0], 3)
    for v in order[1:]:
        smp = smp * one(v, 2)            # product: space = (earlier variables, v)
    if kind == "static":
        smp = smp.make_static()
    elif kind == "static_interval2":
        smp = smp.make_static(2)
    return smp


def record_sampler(smp, log):
    orig = smp.sample_points

    def wrapped(*a, **k):
        out = orig(*a, **k)
        log.append(Points(out.as_tensor.detach().clone(), out.space))
        return out
    smp.sample_points = wrapped
    return smp


def make_residual(arg_order, outs, coords, datas, params, rec, mode):
    """residual with the given ordered signature; records its arguments; value depends on every argument"""
    body = ["    _REC.append({%s})" % ", ".join("'%s': %s" % (a, a) for a in arg_order)]
    terms = []
    for o in outs:
        terms.append("%s" % o)
    for c in coords:
        terms.append("0.3*%s.sum(dim=-1, keepdim=True)" % c)
    for d in datas:
        terms.append("0.5*%s" % d)
    for p in params:
        terms.append("0.7*%s" % p)
    if outs and coords and mode != "hpm":
        body.append("    _g = torch.autograd.grad(%s.sum(), %s, create_graph=True)[0]" % (outs[0], coords[0]))
        body.append("    _REC[-1]['_grad'] = _g")
        terms.append("0.2*_g.sum(dim=-1, keepdim=True)")
    # two keyword arguments with DIFFERENT defaults that nobody supplies: the residual must see exactly these values
    body.append("    _REC[-1]['_k1'], _REC[-1]['_k2'] = _k1, _k2")
    terms.append("0.01*_k1 - 0.003*_k2")
    body.append("    return " + " + ".join(terms))
    src = "def residual(%s, _k1=2.0, _k2=5.0):\n%s\n" % (", ".join(arg_order), "\n".join(body))
    env = {"torch": torch, "_REC": rec}
    exec(src, env)
    return env["residual"], src


def run_item(item):
    res = {"evals": 0, "transitions": 0, "states": [], "outcomes": [], "violations": [], "rejected": 0, "samples": []}
    seen = set()

    def viol(key, what):
        if key in seen:
            return
        seen.add(key)
        res["violations"].append({"key": key, "what": what, "detail": {"item": item["name"]}})
    calls = BOUNDS[item["tier"]]["calls"]
    fam = item["fam"]
    if fam == "single":
        single(item, res, viol, calls)
    else:
        globals()["fam_" + fam](item, res, viol, calls)
    res["samples"] = [{"case": item["name"], "configurations": len(res["states"])}]
    return res


# ------------------------------------------------------------------------------------------
def single(item, res, viol, calls):
    kind, skind = item["kind"], item["sampler"]
    S, Cn = tp.samplers, tp.conditions
    var_sets = [["x"], ["x", "t"], ["t", "x"]]
    if skind == "product_param":
        var_sets = [["x", "p"], ["p", "x"], ["t", "x", "p"]]
    for svars in var_sets:
        for mvars in itertools.permutations(svars):
            for od in (1, 2):
                for ndata in (0, 1, 2, "tensor"):
                    for with_param in (False, True):
                        if kind == "hpm" and od == 2:
                            continue
                        rot = (len(svars) + od + (ndata if isinstance(ndata, int) else 3) + int(with_param)) % 3
                        cfg = "%s|%s|sampler_space=%s|model_space=%s|out=%d|data=%s|param=%s" % (kind, skind, svars, list(mvars), od, ndata, with_param)
                        res["states"].append(cfg)
                        try:
                            _single_case(kind, skind, svars, list(mvars), od, ndata, with_param, rot, cfg, res, viol, calls)
                        except Exception as e:
                            import traceback
                            tb = traceback.extract_tb(e.__traceback__)
                            site = [f for f in tb if "/torchphysics/" in f.filename]
                            where = ("%s:%s" % (site[-1].filename.split("/torchphysics/")[-1], site[-1].name)) if site else "harness:%s:%d" % (tb[-1].name, tb[-1].lineno)
                            viol("C04|error|%s|%s|%s" % (type(e).__name__, kind, skind), "%s raised %s at %s: %s" % (cfg, type(e).__name__, where, str(e)[:120]))


def _single_case(kind, skind, svars, mvars, od, ndata, with_param, rot, cfg, res, viol, calls):
    S, Cn = tp.samplers, tp.conditions
    torch.manual_seed(3)
    model = None if kind == "hpm" else tp.models.FCN(Space({v: DIM[v] for v in mvars}), Space({"u": od}), hidden=(4,))
    log, rec = [], []
    smp = record_sampler(make_sampler("grid" if skind == "product_param" else skind, svars), log)
    outs = [] if kind == "hpm" else ["u"]
    coords = list(svars)
    datas, dfun = [], {}
    if ndata in (1, 2):
        dfun["f"] = eval("lambda %s: 1.0 + %s.sum(dim=-1, keepdim=True)**2" % (svars[-1], svars[-1]))
        datas.append("f")
    if ndata == 2:
        a, b = svars[0], svars[-1]
        dfun["h"] = (eval("lambda %s, %s: %s.sum(dim=-1, keepdim=True) - 2.0*%s.sum(dim=-1, keepdim=True)" % (a, b, a, b)) if a != b
                     else eval("lambda %s: 3.0*%s.sum(dim=-1, keepdim=True)" % (a, a)))
        datas.append("h")
    if ndata == "tensor":
        n_rows = {"data": 4}.get(skind, 3 * 2 ** (len(svars) - 1))
        dfun["f"] = torch.arange(n_rows, dtype=torch.float32).reshape(-1, 1) * 0.1 + 0.5
        datas.append("f")
    params = []
    parameter = tp.models.Parameter.empty()
    if with_param:
        parameter = tp.models.Parameter(init=0.8, space=Space({"D": 1}))
        params.append("D")
    args = outs + coords + datas + params
    args = args[rot % len(args):] + args[:rot % len(args)]
    residual, src = make_residual(args, outs, coords, datas, params, rec, kind)
    user_dict_keys = list(dfun.keys())
    if kind == "pinn":
        cond = Cn.PINNCondition(model, smp, residual, data_functions=dfun, parameter=parameter)
    elif kind == "mean":
        cond = Cn.MeanCondition(model, smp, residual, data_functions=dfun, parameter=parameter)
    elif kind == "ritz":
        cond = Cn.DeepRitzCondition(model, smp, residual, data_functions=dfun, parameter=parameter)
    elif kind == "custom":
        cond = Cn.SingleModuleCondition(model, smp, residual, error_fn=lambda r: r.abs().sum(dim=1), reduce_fn=torch.max,
                                        data_functions=dfun, parameter=parameter)
    elif kind == "adaptive_w":
        cond = Cn.AdaptiveWeightsCondition(model, smp, residual, data_functions=dfun, parameter=parameter)
        with torch.no_grad():
            cond.adaptive_layer.weight.copy_(torch.linspace(0.5, 2.0, len(cond.adaptive_layer.weight)))   # mean != 1: a normalised weighted mean differs from mean(w*err)
    else:
        cond = Cn.HPM_EquationLoss_at_Sampler(None, smp, residual, data_functions=dfun, parameter=parameter)
    log_before = len(log)      # construction may sample (static samplers pre-evaluate data functions)
    for call in range(calls):
        del rec[:]
        n_log = len(log)
        res["evals"] += 1
        res["transitions"] += 1
        with Seam():
            loss = cond(device="cpu", iteration=call)
        if not rec:
            viol("C04|residual-not-called|%s" % kind, "%s: the residual was not called" % cfg)
            return
        r = rec[-1]
        # which points were used: the newest logged sample, or the cached one for static samplers
        if len(log) == 0:
            viol("C04|sampler-not-called|%s" % kind, "%s: the sampler was never asked for points" % cfg)
            return
        pts = log[-1]
        pc = pts.coordinates
        n = len(pts)
        # (1) coordinates by name
        for v in coords:
            if v not in r or r[v].shape != pc[v].shape or not torch.equal(r[v].detach(), pc[v]):
                viol("C04|coordinate-mismatch|%s|%s" % (kind, skind), "%s call %d: residual argument %s is not the sampled column of that name" % (cfg, call, v))
                return
        # (2) outputs = model on exactly these rows
        if model is not None:
            xin = {v: pc[v].clone().requires_grad_(True) for v in mvars}
            u_ref = model(Points.from_coordinates({v: xin[v] for v in mvars})).as_tensor
            if r["u"].shape != u_ref.shape or not torch.allclose(r["u"].detach(), u_ref.detach(), rtol=1e-6, atol=1e-7):
                viol("C04|output-mismatch|%s|%s" % (kind, skind), "%s call %d: residual argument u differs from the model evaluated on the sampled rows" % (cfg, call))
                return
            g_ref = torch.autograd.grad(u_ref.sum(), xin[coords[0]])[0]
            if "_grad" in r and not torch.allclose(r["_grad"].detach(), g_ref, rtol=1e-5, atol=1e-6):
                viol("C04|derivative-mismatch|%s|%s" % (kind, skind), "%s call %d: d(sum u)/d%s taken inside the residual differs from the derivative of an independent evaluation" % (cfg, call, coords[0]))
                return
        # (3) data functions on the same rows
        for dname in datas:
            fobj = dfun_expected(dname, ndata, svars, pc, n)
            if r[dname].shape != fobj.shape or not torch.allclose(r[dname].detach(), fobj, rtol=1e-6, atol=1e-7):
                viol("C04|data-function-mismatch|%s|%s" % (kind, skind), "%s call %d: residual argument %s is not the data function evaluated on the sampled rows (got %s..., expected %s...)" % (
                    cfg, call, dname, r[dname].reshape(-1)[:3].tolist(), fobj.reshape(-1)[:3].tolist()))
                return
        if with_param and (r["D"].shape != (1, 1) or abs(float(r["D"]) - 0.8) > 1e-7):
            viol("C04|parameter-mismatch|%s" % kind, "%s: residual argument D is %s" % (cfg, r["D"]))
            return
        # (4) loss = documented reduction of the residual recomputed in float64
        rv = recompute(r, outs, coords, datas, params, kind).double()
        if kind in ("pinn", "hpm"):
            exp = (rv ** 2).sum(dim=1).mean()
        elif kind in ("mean", "ritz"):
            exp = rv.mean()
        elif kind == "custom":
            exp = rv.abs().sum(dim=1).max()
        else:
            w = torch.linspace(0.5, 2.0, n).double()
            exp = (w * (rv ** 2).sum(dim=1)).mean()
        if abs(float(loss) - float(exp)) > 1e-5 * max(1.0, abs(float(exp))):
            viol("C04|loss-mismatch|%s|%s" % (kind, skind), "%s call %d: loss %.8g, documented reduction of the recorded residual %.8g" % (cfg, call, float(loss), float(exp)))
            return
    res["outcomes"].append(cfg)


def dfun_expected(dname, ndata, svars, pc, n):
    if ndata == "tensor":
        return torch.arange(n, dtype=torch.float32).reshape(-1, 1) * 0.1 + 0.5
    if dname == "f":
        return 1.0 + pc[svars[-1]].sum(dim=-1, keepdim=True) ** 2
    a, b = svars[0], svars[-1]
    if a != b:
        return pc[a].sum(dim=-1, keepdim=True) - 2.0 * pc[b].sum(dim=-1, keepdim=True)
    return 3.0 * pc[a].sum(dim=-1, keepdim=True)


def recompute(r, outs, coords, datas, params, kind):
    terms = []
    for o in outs:
        terms.append(r[o].detach().double())
    for c in coords:
        terms.append(0.3 * r[c].detach().double().sum(dim=-1, keepdim=True))
    for d in datas:
        terms.append(0.5 * r[d].detach().double())
    for p in params:
        terms.append(0.7 * r[p].detach().double())
    if "_grad" in r:
        terms.append(0.2 * r["_grad"].detach().double().sum(dim=-1, keepdim=True))
    tot = terms[0]
    for t in terms[1:]:
        tot = tot + t
    return tot + (0.01 * 2.0 - 0.003 * 5.0)        # the DECLARED defaults of _k1, _k2


# ------------------------------------------------------------------------------------------
def fam_parameter(item, res, viol, calls):
    for order in itertools.permutations(["D", "k"]):
        rec = []
        P1 = tp.models.Parameter(init=[0.8, 0.1], space=Space({"D": 2}))
        P2 = tp.models.Parameter(init=2.5, space=Space({"k": 1}))
        par = P1.join(P2) if order[0] == "D" else P2.join(P1)
        src = "def pen(%s):\n    _REC.append({'D': D, 'k': k})\n    return (D.sum() - 2*k.sum())**2\n" % ", ".join(order)
        env = {"_REC": rec}
        exec(src, env)
        cfg = "parameter|space=%s|signature=%s" % (list(par.space.keys()), list(order))
        res["states"].append(cfg)
        res["evals"] += 1
        res["transitions"] += 1
        try:
            par = tp.models.Parameter(init=par.as_tensor.detach().reshape(-1), space=par.space)
            cond = tp.conditions.ParameterCondition(par, env["pen"], weight=1.0)
            loss = float(cond())
        except Exception as e:
            viol("C04|error|%s|parameter" % type(e).__name__, "%s raised %s: %s" % (cfg, type(e).__name__, str(e)[:100]))
            continue
        vals = {"D": [0.8, 0.1], "k": [2.5]}
        exp = (sum(vals["D"]) - 2 * sum(vals["k"])) ** 2
        got = {k_: rec[-1][k_].reshape(-1).tolist() for k_ in ("D", "k")}
        if any(abs(a - b) > 1e-6 for k_ in vals for a, b in zip(got[k_], vals[k_])) or abs(loss - exp) > 1e-5:
            viol("C04|parameter-condition", "%s: penalty received %s, loss %.6f (expected %s, %.6f)" % (cfg, got, loss, vals, exp))
        else:
            res["outcomes"].append(cfg)


class RecModel(tp.models.Model):
    """u = a . x (row-wise) with a fixed vector, so expected outputs are known in closed form"""
    def __init__(self, in_space, od):
        super().__init__(in_space, Space({"u": od}))
        self.lin = torch.nn.Linear(in_space.dim, od)
        with torch.no_grad():
            self.lin.weight.copy_(torch.arange(od * in_space.dim, dtype=torch.float32).reshape(od, -1) * 0.1 + 0.2)
            self.lin.bias.fill_(0.05)

    def forward(self, points):
        points = self._fix_points_order(points)
        return Points(self.lin(points.as_tensor), self.output_space)


def fam_data(item, res, viol, calls):
    Cn = tp.conditions
    for N, bs in ((5, 2), (4, 4), (6, 4), (3, 1)):
        for norm in (1, 2, "inf"):
            for root in (1.0, 2.0):
                for constrain, full, shuffle in ((False, False, False), (False, True, False), (True, False, False), (True, True, False),
                                                 (False, False, True), (True, True, True)):
                    if True:
                        cfg = "data|N=%d|bs=%d|norm=%s|root=%s|constrain=%s|full=%s|shuffle=%s" % (N, bs, norm, root, constrain, full, shuffle)
                        res["states"].append(cfg)
                        x = torch.arange(N * 2, dtype=torch.float32).reshape(N, 2) * 0.1 + 0.3
                        model = RecModel(Space({"x": 2}), 1)
                        with torch.no_grad():
                            out = model(Points(x, Space({"x": 2}))).as_tensor
                        y = out - (torch.arange(N, dtype=torch.float32).reshape(N, 1) % 3 + 1) * 0.25
                        # shuffling: the ONE permutation drawn (scripted: reversal) must be applied to inputs and targets alike
                        with Seam({0: "REV", 1: "ROT", 2: "ROT"}):
                            ld = PointsDataLoader((Points(x, Space({"x": 2})), Points(y, Space({"u": 1}))), batch_size=bs, shuffle=shuffle)
                        cf = (lambda u, x: 2.0 * u + x[:, :1]) if constrain else None
                        try:
                            cond = Cn.DataCondition(model, ld, norm=norm, root=root, use_full_dataset=full, constrain_fn=cf)
                            vals = [float(cond(iteration=i)) for i in range(4)]
                        except Exception as e:
                            viol("C04|error|%s|data" % type(e).__name__, "%s raised %s: %s" % (cfg, type(e).__name__, str(e)[:100]))
                            continue
                        res["evals"] += 4
                        res["transitions"] += 4
                        pred = (2.0 * out + x[:, :1]) if constrain else out
                        a = (pred - y).abs().double().reshape(-1).numpy()
                        if shuffle:
                            a = a[::-1]
                        chunks = [a[i:i + bs] for i in range(0, N, bs)]

                        def red(c):
                            return c.max() if norm == "inf" else np.mean(c ** norm)
                        if full:
                            e1 = max(red(c) for c in chunks) if norm == "inf" else float(np.mean([red(c) for c in chunks]))
                            exp = [e1 ** (1 / root)] * 4
                        else:
                            exp = [red(chunks[i % len(chunks)]) ** (1 / root) for i in range(4)]
                        if any(abs(v - e) > 1e-5 * max(1, abs(e)) for v, e in zip(vals, exp)):
                            viol("C04|data-condition|%s" % ("full" if full else "batchwise"), "%s: losses of 4 calls %s, the stated norm of model-minus-target gives %s" % (
                                cfg, [round(v, 6) for v in vals], [round(float(e), 6) for e in exp]))
                        else:
                            res["outcomes"].append(cfg)


def fam_periodic(item, res, viol, calls):
    Cn, S = tp.conditions, tp.samplers
    T, X = Space({"t": 1}), Space({"x": 2})
    for mvars in (["t", "x"], ["x", "t"]):
        for od in (1, 2):
            for static in (False,):
                for sig in (["u_left", "u_right", "t_left", "t_right", "x", "g_left", "g_right"], ["g_right", "x", "u_right", "t_right", "u_left", "g_left", "t_left"]):
                    cfg = "periodic|model_space=%s|out=%d|signature=%s" % (mvars, od, sig)
                    res["states"].append(cfg)
                    rec, log = [], []
                    src = "def residual(%s):\n    _REC.append({%s})\n    return u_left - 2*u_right + 0.1*g_left - 0.3*g_right + 0.2*(t_right - t_left) + 0.05*x.sum(dim=-1, keepdim=True)\n" % (
                        ", ".join(sig), ", ".join("'%s': %s" % (a, a) for a in sig))
                    env = {"_REC": rec}
                    exec(src, env)
                    torch.manual_seed(2)
                    model = tp.models.FCN(Space({v: DIM[v] for v in mvars}), Space({"u": od}), hidden=(4,))
                    smp = record_sampler(S.GridSampler(domain_of("x"), 4), log)
                    try:
                        cond = Cn.PeriodicCondition(model, tp.domains.Interval(T, 0.5, 2.0), env["residual"], non_periodic_sampler=smp,
                                                    data_functions={"g": lambda t, x: 3.0 * t + x.sum(dim=-1, keepdim=True)})
                        loss = float(cond())
                    except Exception as e:
                        viol("C04|error|%s|periodic" % type(e).__name__, "%s raised %s: %s" % (cfg, type(e).__name__, str(e)[:100]))
                        continue
                    res["evals"] += 1
                    res["transitions"] += 1
                    r = rec[-1]
                    xs = log[-1].coordinates["x"]
                    n = len(xs)
                    ok = torch.equal(r["x"].detach(), xs) and torch.allclose(r["t_left"].detach(), torch.full((n, 1), 0.5)) and torch.allclose(r["t_right"].detach(), torch.full((n, 1), 2.0))
                    with torch.no_grad():
                        ul = model(Points.from_coordinates({"t": torch.full((n, 1), 0.5), "x": xs})[..., mvars]).as_tensor
                        ur = model(Points.from_coordinates({"t": torch.full((n, 1), 2.0), "x": xs})[..., mvars]).as_tensor
                    ok = ok and torch.allclose(r["u_left"].detach(), ul, atol=1e-6) and torch.allclose(r["u_right"].detach(), ur, atol=1e-6)
                    gl = 3.0 * 0.5 + xs.sum(dim=-1, keepdim=True)
                    gr = 3.0 * 2.0 + xs.sum(dim=-1, keepdim=True)
                    ok = ok and torch.allclose(r["g_left"].detach(), gl) and torch.allclose(r["g_right"].detach(), gr)
                    rv = (ul - 2 * ur + 0.1 * gl - 0.3 * gr + 0.2 * 1.5 + 0.05 * xs.sum(dim=-1, keepdim=True)).double()
                    exp = float((rv ** 2).sum(dim=1).mean())
                    if not ok:
                        viol("C04|periodic-arguments", "%s: a residual argument (left/right coordinates, outputs or data) is not evaluated on its own side / rows" % cfg)
                    elif abs(loss - exp) > 1e-5 * max(1, abs(exp)):
                        viol("C04|loss-mismatch|periodic", "%s: loss %.8g, expected %.8g" % (cfg, loss, exp))
                    else:
                        res["outcomes"].append(cfg)


def fam_integro(item, res, viol, calls):
    Cn, S = tp.conditions, tp.samplers
    for mvars in (["t", "x"], ["x", "t"]):
        for wg in (False, True):     # wg: the residual also differentiates u_integral with respect to the integral points
          for od in (1, 2):
              cfg = "integro|model_space=%s|out=%d%s" % (mvars, od, "|d/dx_integral" if wg else "")
              res["states"].append(cfg)
              rec, log, logi = [], [], []

              def residual(u, u_integral, t, x, x_integral, f):
                  rec.append({"u": u, "u_integral": u_integral, "t": t, "x": x, "x_integral": x_integral, "f": f})
                  if wg:
                      gi = tp.utils.grad(u_integral, x_integral)
                      rec[-1]["gi"] = gi.detach().clone()
                      return u - u_integral.mean(dim=1, keepdim=True) + 0.1 * f + 0.05 * gi.sum()
                  return u - u_integral.mean(dim=1, keepdim=True) + 0.1 * f
              torch.manual_seed(4)
              model = tp.models.FCN(Space({v: DIM[v] for v in mvars}), Space({"u": od}), hidden=(4,))
              smp = record_sampler(S.GridSampler(domain_of("t"), 3) * S.GridSampler(domain_of("x"), 2), log)
              ismp = record_sampler(S.GridSampler(domain_of("x"), 5), logi)
              try:
                  cond = Cn.IntegroPINNCondition(model, smp, residual, ismp, data_functions={"f": lambda t: 2.0 * t})
                  loss = float(cond())
              except Exception as e:
                  viol("C04|error|%s|integro" % type(e).__name__, "%s raised %s: %s" % (cfg, type(e).__name__, str(e)[:100]))
                  continue
              res["evals"] += 1
              res["transitions"] += 1
              r = rec[-1]
              P, Pi = log[-1], logi[-1]
              n, m = len(P), len(Pi)
              pc = P.coordinates
              ok = torch.equal(r["t"].detach().reshape(n, 1), pc["t"]) and torch.equal(r["x"].detach().reshape(n, 2), pc["x"]) and \
                  torch.equal(r["x_integral"].detach().reshape(m, 2), Pi.coordinates["x"])
              with torch.no_grad():
                  u = model(P[..., mvars] if False else Points.from_coordinates({v: pc[v] for v in mvars})).as_tensor
                  ui = torch.stack([model(Points.from_coordinates({"t": pc["t"][i:i + 1].repeat(m, 1), "x": Pi.coordinates["x"]})[..., mvars]).as_tensor for i in range(n)])
              ok = ok and r["u"].shape == (n, 1, od) and torch.allclose(r["u"].detach().reshape(n, od), u, atol=1e-6)
              ok = ok and r["u_integral"].shape == (n, m, od) and torch.allclose(r["u_integral"].detach(), ui, atol=1e-6)
              ok = ok and torch.allclose(r["f"].detach().reshape(n, 1), 2.0 * pc["t"])
              rv = (u.reshape(n, 1, od) - ui.mean(dim=1, keepdim=True) + 0.1 * (2.0 * pc["t"]).reshape(n, 1, 1)).double()
              if wg:
                  xq = Pi.coordinates["x"].detach().clone().requires_grad_(True)
                  tot = sum(model(Points.from_coordinates({"t": pc["t"][i:i + 1].detach().repeat(m, 1), "x": xq})[..., mvars]).as_tensor.sum() for i in range(n))
                  gref = torch.autograd.grad(tot, xq)[0]
                  if tuple(r["gi"].reshape(-1, 2).shape) != (m, 2) or not torch.allclose(r["gi"].reshape(m, 2), gref, rtol=1e-4, atol=1e-6):
                      viol("C04|integro-derivative", "%s: grad(u_integral, x_integral) inside the residual is %s, the derivative of the model at the integral points is %s" % (
                          cfg, r["gi"].reshape(-1, 2)[:2].tolist(), gref[:2].tolist()))
                      continue
                  rv = rv + 0.05 * float(gref.sum())
              exp = float((rv ** 2).sum(dim=-1).mean())      # mean over points of the squared residual summed over components
              if not ok:
                  viol("C04|integro-arguments", "%s: residual arguments are not (x, x_integral, u(x), u(x with integral points)) of the sampled rows" % cfg)
              elif abs(loss - exp) > 1e-5 * max(1, abs(exp)):
                  viol("C04|loss-mismatch|integro", "%s: loss %.8g, expected %.8g" % (cfg, loss, exp))
              else:
                  res["outcomes"].append(cfg)


def _deeponet(din, od, fvar="t"):
    from torchphysics.models.deeponet.branchnets import FCBranchNet
    from torchphysics.models.deeponet.trunknets import FCTrunkNet
    from torchphysics.models.deeponet.deeponet import DeepONet
    torch.manual_seed(9)
    fs = FunctionSpace(tp.domains.Interval(Space({fvar: 1}), 0, 1), Space({"e": 1}))
    sampler = tp.samplers.GridSampler(fs.input_domain, 4).make_static()
    trunk = FCTrunkNet(Space({"x": din}), hidden=(3,))
    branch = FCBranchNet(fs, discretization_sampler=sampler, hidden=(3,))
    return DeepONet(trunk, branch, output_space=Space({"u": od}), output_neurons=2 * od), fs, sampler


def fam_pideeponet(item, res, viol, calls):
    from torchphysics.problem.domains import CustomFunctionSet
    Cn, S = tp.conditions, tp.samplers
    for od in (1, 2):
        for F in (1, 3):
            for sig in (["u", "x", "e", "f"], ["f", "e", "x", "u"], ["u", "x"], ["u", "x", "e=None"], ["x", "u", "f", "e=None"]):
                cfg = "pideeponet|out=%d|functions=%d|signature=%s" % (od, F, sig)
                res["states"].append(cfg)
                rec, log = [], []
                names = [s_.split("=")[0] for s_ in sig]
                has_e = "e" in names
                terms = "u" + (" - e" if has_e else "") + (" + 0.2*f" if "f" in sig else "") + " + 0.1*x"
                src = "def residual(%s):\n    _REC.append({%s})\n    return %s\n" % (", ".join(sig), ", ".join("'%s': %s" % (a, a) for a in names), terms)
                env = {"_REC": rec}
                exec(src, env)
                # when the residual uses the input functions themselves (e), they are evaluated at the trunk points: the
                # function space then lives on the trunk variable x
                net, fs, dsamp = _deeponet(1, od, fvar="x" if has_e else "t")
                fn_k = (lambda k, x: torch.sin(3 * k * x) + k) if has_e else (lambda k, t: torch.sin(3 * k * t) + k)
                fset = CustomFunctionSet(fs, S.GridSampler(tp.domains.Interval(Space({"k": 1}), 0, 1), F), fn_k)
                # the function set lives on t, the trunk on x: evaluate the functions at the trunk points through variable t
                smp = record_sampler(S.GridSampler(tp.domains.Interval(Space({"x": 1}), 0.1, 0.9), 5), log)
                try:
                    cond = Cn.PIDeepONetCondition(net, fset, smp, env["residual"], data_functions=({"f": lambda x: x ** 2} if "f" in sig else {}))
                    loss = float(cond(iteration=0))
                except Exception as e:
                    viol("C04|error|%s|pideeponet" % type(e).__name__, "%s raised %s: %s" % (cfg, type(e).__name__, str(e)[:100]))
                    continue
                res["evals"] += 1
                res["transitions"] += 1
                r = rec[-1]
                xs = log[-1].coordinates["x"]
                J = len(xs)
                with torch.no_grad():
                    exp_u = net(Points(xs.unsqueeze(0).repeat(F, 1, 1), Space({"x": 1}))).as_tensor
                ok = r["u"].shape == (F, J, od) and torch.allclose(r["u"].detach(), exp_u, atol=1e-6)
                ok = ok and r["x"].shape == (F, J, 1) and torch.equal(r["x"].detach(), xs.unsqueeze(0).repeat(F, 1, 1))
                if "f" in sig:
                    ok = ok and torch.allclose(r["f"].detach(), (xs ** 2).unsqueeze(0).repeat(F, 1, 1))
                e_exp = 0.0
                if has_e:
                    ks = S.GridSampler(tp.domains.Interval(Space({"k": 1}), 0, 1), F).sample_points().as_tensor.reshape(F, 1, 1)
                    e_exp = torch.sin(3 * ks * xs.reshape(1, J, 1)) + ks          # f_k at the trunk points, (F, J, 1)
                    ok = ok and isinstance(r["e"], torch.Tensor) and tuple(r["e"].shape) == (F, J, 1) and torch.allclose(r["e"].detach(), e_exp, atol=1e-6)
                rv = (exp_u - e_exp + (0.2 * (xs ** 2).unsqueeze(0) if "f" in sig else 0.0) + 0.1 * xs.unsqueeze(0)).double()
                exp = float((rv ** 2).sum(dim=1).mean()) if False else float(torch.mean(torch.sum(rv ** 2, dim=1)))
                if not ok:
                    viol("C04|pideeponet-arguments", "%s: residual arguments are not (functions x locations) blocks of the sampled rows" % cfg)
                    continue
                # documented: mean over points and over input functions of the squared residual summed over components
                exp_doc = float((rv ** 2).sum(dim=-1).mean())
                if abs(loss - exp_doc) > 1e-5 * max(1, abs(exp_doc)):
                    viol("C04|loss-mismatch|pideeponet|out%d" % od, "%s: loss %.8g; mean over functions and points of the squared residual summed over components is %.8g" % (cfg, loss, exp_doc))
                else:
                    res["outcomes"].append(cfg)


def fam_actderiv(item, res, viol, calls):
    """derivatives of the model output that a residual takes (first AND second order) are the derivatives of the function the
    model computes: compared with central finite differences of the model itself in float64 -- an oracle that does not go
    through autograd, so hand-written autograd functions of the library's activations are covered"""
    from torchphysics.models.activation_fn import ReLUn, Sinus, AdaptiveActivationFunction
    Cn, S = tp.conditions, tp.samplers
    acts = [("tanh", lambda: torch.nn.Tanh()), ("ReLUn(3)", lambda: ReLUn(3)), ("ReLUn(2)", lambda: ReLUn(2)), ("Sinus", lambda: Sinus()),
            ("Adaptive(tanh)", lambda: AdaptiveActivationFunction(torch.nn.Tanh(), inital_a=0.8, scaling=1.3))]
    # one model with DIFFERENT activations per layer (anything an activation keeps outside the call shows only here)
    mixed = [("[ReLUn(2),ReLUn(3)]", lambda: [ReLUn(2), ReLUn(3)]), ("[ReLUn(3),ReLUn(2)]", lambda: [ReLUn(3), ReLUn(2)]),
             ("[ReLUn(3),tanh]", lambda: [ReLUn(3), torch.nn.Tanh()]), ("[Sinus,ReLUn(2)]", lambda: [Sinus(), ReLUn(2)]),
             ("[Adaptive(tanh),ReLUn(3)]", lambda: [AdaptiveActivationFunction(torch.nn.Tanh(), inital_a=0.8, scaling=1.3), ReLUn(3)])]
    X1 = Space({"x": 1})
    for aname, mk in acts + mixed:
        for hidden in ((4,), (3, 3)):
            if aname.startswith("[") and len(hidden) != 2:
                continue
            cfg = "actderiv|%s|hidden=%s" % (aname, hidden)
            res["states"].append(cfg)
            torch.manual_seed(17)
            try:
                model = tp.models.FCN(X1, Space({"u": 1}), hidden=hidden, activations=mk()).double()
            except Exception as e:
                viol("C04|error|%s|actderiv" % type(e).__name__, "%s: building the model raised %s: %s" % (cfg, type(e).__name__, str(e)[:100]))
                continue
            rec = []

            def residual(u, x):
                g = tp.utils.grad(u, x)
                lap = tp.utils.laplacian(u, x)
                rec.append({"x": x.detach().clone(), "u": u.detach().clone(), "g": g.detach().clone(), "lap": lap.detach().clone()})
                return u + 0.5 * g - 0.1 * lap
            xs = torch.linspace(0.15, 1.85, 7, dtype=torch.float64).reshape(-1, 1)
            smp = S.DataSampler({"x": xs})
            try:
                cond = Cn.PINNCondition(model, smp, residual)
                loss = float(cond(device="cpu"))
            except Exception as e:
                viol("C04|error|%s|actderiv" % type(e).__name__, "%s raised %s: %s" % (cfg, type(e).__name__, str(e)[:100]))
                continue
            res["evals"] += 1
            res["transitions"] += 1
            r = rec[-1]
            h = 1e-4

            def f(z):
                with torch.no_grad():
                    return model(Points(z, X1)).as_tensor
            fd1 = (f(xs + h) - f(xs - h)) / (2 * h)
            fd2 = (f(xs + h) - 2 * f(xs) + f(xs - h)) / (h * h)
            e1 = float((r["g"] - fd1).abs().max())
            e2 = float((r["lap"] - fd2).abs().max())
            sc1 = max(1.0, float(fd1.abs().max()))
            sc2 = max(1.0, float(fd2.abs().max()))
            if e1 > 1e-5 * sc1:
                viol("C04|derivative-mismatch|first|%s" % aname.strip("[").split("(")[0], "%s: grad(u, x) inside the residual differs from the finite-difference derivative of the model by %.3g" % (cfg, e1))
            elif e2 > 2e-4 * sc2:
                viol("C04|derivative-mismatch|second|%s" % aname.strip("[").split("(")[0], "%s: laplacian(u, x) inside the residual differs from the second finite difference of the model by %.3g (values up to %.3g)" % (cfg, e2, sc2))
            else:
                exp = float(torch.mean((f(xs) + 0.5 * fd1 - 0.1 * fd2) ** 2))
                if abs(loss - exp) > 1e-4 * max(1.0, abs(exp)):
                    viol("C04|loss-mismatch|actderiv", "%s: loss %.8g, mean squared residual from finite differences %.8g" % (cfg, loss, exp))
                else:
                    res["outcomes"].append(cfg)


def fam_deeponetdata(item, res, viol, calls):
    Cn = tp.conditions
    for od in (1, 2):
        for nb, nt, bb, tb in ((3, 4, 2, 4), (2, 5, -1, 2), (4, 3, 3, -1)):
            for norm in (2, "inf"):
                for full in (False, True):
                    cfg = "deeponetdata|out=%d|Nb=%d|Nt=%d|batch=%d/%d|norm=%s|full=%s" % (od, nb, nt, bb, tb, norm, full)
                    res["states"].append(cfg)
                    net, fs, dsamp = _deeponet(1, od)
                    branch = torch.arange(nb * 4, dtype=torch.float32).reshape(nb, 4, 1) * 0.1
                    trunk = torch.linspace(0.1, 0.9, nt).reshape(nt, 1)
                    with torch.no_grad():
                        pred = net(Points(trunk, Space({"x": 1})), branch).as_tensor          # (nb, nt, od)
                    off = (torch.arange(nb * nt, dtype=torch.float32).reshape(nb, nt, 1) % 4 + 1) * 0.2
                    outd = pred - off
                    ld = DeepONetDataLoader(branch, trunk, outd, Space({"e": 1}), Space({"x": 1}), Space({"u": od}), bb, tb,
                                            shuffle_branch=False, shuffle_trunk=False)
                    try:
                        cond = Cn.DeepONetDataCondition(net, ld, norm=norm, use_full_dataset=full)
                        vals = [float(cond(iteration=i)) for i in range(3)]
                    except Exception as e:
                        viol("C04|error|%s|deeponetdata" % type(e).__name__, "%s raised %s: %s" % (cfg, type(e).__name__, str(e)[:100]))
                        continue
                    res["evals"] += 3
                    res["transitions"] += 3
                    batches = [b for b in ld]
                    errs = []
                    for bi, ti, oi in batches:
                        fa = (bi.as_tensor[:, 0, 0] / 0.4).round().long()
                        lo = [int(torch.argmin((trunk[:, 0] - v).abs())) for v in ti.as_tensor[:, 0]]
                        errs.append(off[fa][:, lo].expand(-1, -1, od).double().numpy())

                    def red(c):
                        return c.max() if norm == "inf" else np.mean(c ** norm)
                    if full:
                        e1 = max(red(c) for c in errs) if norm == "inf" else float(np.mean([red(c) for c in errs]))
                        exp = [e1] * 3
                    else:
                        exp = [red(errs[i % len(errs)]) for i in range(3)]
                    if any(abs(v - e) > 1e-4 * max(1, abs(e)) for v, e in zip(vals, exp)):
                        viol("C04|deeponet-data-condition|%s" % ("full" if full else "batchwise"), "%s: losses %s, stated norm of model-minus-target %s" % (
                            cfg, [round(v, 5) for v in vals], [round(float(e), 5) for e in exp]))
                    else:
                        res["outcomes"].append(cfg)
