"""C05 -- membership tests agree with the set the domain expression denotes."""
import hashlib
import numpy as np
import torch

from ..kernel.seam import Seam, SeamBudget
from ..ref import geom as G
from ..ref import build as Bd
from ..ref import lattice as L
from .geo_common import *  # noqa

PROP = "C05"
LEVEL = "model_checking"
TECHNIQUE = "bounded-exhaustive enumeration of domain expressions x query lattice x parameter rows against a float64 reference denotation"
RULE = ("every expression of the DEL alphabet (leaves, one/two Boolean operators, rigid motions, products, boundaries) "
        "x every parameter row on {0,.5,1}^p x a full query lattice over the inflated reference box plus reference "
        "boundary points and the library's own boundary samples; a case is distinct by (expression, truth pattern) and "
        "non-trivial when the pattern contains both members and non-members")
ASSUMPTIONS = ["reference denotation tpmc/ref/geom.py (float64 signed-distance bounds, ring test for boundaries)",
               "points within 1e-3*scale of the reference boundary are not judged for interior membership",
               "values off the shape/parameter lattice and nesting deeper than two Boolean operators are not explored"]
BOUNDS = {"quick": {"boolean_depth": 1, "lattice": "17x17 / 33 / 9^3", "theta": L.TH},
          "thorough": {"boolean_depth": 2, "lattice": "17x17 / 33 / 9^3", "theta": L.TH}}
ITEM_LIMIT = {"quick": 600, "thorough": 1800}


def items(tier):
    exprs = L.solids(tier) + L.boundary_exprs(tier) + L.products(tier) + L.default_exprs(tier) + L.lowdim_unions(tier) + L.mesh_extras(tier)
    # boundaries of products: (dA x B) u (A x dB), also for a first factor that depends on the second
    exprs += [L.B(L.X(L.C1, L.IT)), L.B(L.X(L.I01, L.IT)), L.B(L.X(L.SQ, L.I(0, 2, var="y"))), L.B(L.X(L.C_GROW, L.IT)),
              L.B(L.X(L.I_GROW, L.IT))]
    return [{"name": G.show(a), "ast": a} for a in L.dedupe(exprs)]


def _contains(D, pts, prm):
    out = D._contains(pts, prm) if not prm.isempty else D._contains(pts)
    return out


def _truth(t, n):
    t = torch.as_tensor(t)
    if t.numel() != n:
        return None
    return (t.reshape(-1) != 0).numpy()


def _leaf_boundary_points(a, theta, m=48):
    """reference boundary points of every leaf of a same-space expression at one parameter row"""
    if a["k"] == "prod" or G.has_kind_prod(a):
        return np.zeros((0, sum(d for _, d in G.space_vars(a))))
    row = {v: np.array([[x]]) for v, x in theta.items()}
    s = (np.arange(m) + 0.37) / m
    out = []
    for leaf, maps in G.leaves(a):
        if leaf["k"] == "point":
            continue
        p = G.boundary_points(leaf, row, s)
        if leaf["k"] in ("para", "tri"):
            # points on the PROLONGATION of every edge beyond its end points (collinear, but not on the boundary)
            V = G.prim_vertices(leaf, row, 1)[0]
            ext = [V[i] + t * (V[(i + 1) % len(V)] - V[i]) for i in range(len(V)) for t in (-0.35, -0.12, 1.12, 1.35)]
            p = np.concatenate([p, np.array(ext)])
        if leaf["k"] == "mesh":
            from ..ref import poly3d
            p = np.concatenate([p, poly3d.special_points(*poly3d.SHAPES[leaf["shape"]])])
        for mp in reversed(maps):
            p = G.pushforward(mp, p, {k: np.broadcast_to(v, (len(p), 1)) for k, v in row.items()})
        out.append(p)
    return np.concatenate(out) if out else np.zeros((0, G.space_vars(a)[0][1]))


def run_item(item):
    a = item["ast"]
    name = item["name"]
    res = {"evals": 0, "transitions": 0, "states": [], "outcomes": [], "violations": [], "rejected": 0, "samples": []}
    V = res["violations"]

    def viol(oracle, what, detail, flavor=None):
        key = "C05|%s|%s" % (oracle, flavor or kind_sig(a))
        V.append({"key": key, "what": "%s: %s" % (name, what), "detail": detail})

    try:
        D = Bd.build_tp(a)
    except Exception as e:
        if is_deliberate(e):
            res["rejected"] += 1
            res["states"] = [name]
            res["outcomes"] = [name + "|rejected"]
            res["evals"] = 1
            return res
        viol("constructor-error", "constructing the domain raised %s: %s" % (exc_sig(e), e), {"ast": a})
        return res
    fv = G.free_vars(a)
    thetas = [th for th in theta_rows(fv) if L.positive_measure(a, th)]
    if not thetas:
        return res
    box = hull_box(a, thetas)
    scale = scale_of(box)
    Q = lattice_points(box)
    order = space_order(a)
    porder = sorted(fv)
    solid = G.is_solid(a)
    same_space = not G.has_kind_prod(a)

    blocks, prows, tags = [], [], []
    for th in thetas:
        pts = Q
        if same_space:
            bp = _leaf_boundary_points(a, th)
            pts = np.concatenate([Q, bp]) if len(bp) else Q
        blocks.append(pts)
        prows.append(np.tile(np.array([[th[v] for v in porder]]), (len(pts), 1)) if porder else np.zeros((len(pts), 0)))
        tags.append(th)
    allp = np.concatenate(blocks)
    allprm = np.concatenate(prows)
    n = len(allp)
    vals = split_space(a, allp)
    for j, v in enumerate(porder):
        vals[v] = allprm[:, j:j + 1]
    P_all = Bd.points_of(vals, order)
    R_all = Bd.points_of(vals, porder)
    # the library sees float32; judge the float32 points
    vals32 = Bd.to_vals(P_all, R_all)

    def call(D_, idx=None):
        if idx is None:
            p, r = P_all, R_all
        else:
            ii = torch.as_tensor(idx)
            p = Points(P_all.as_tensor[ii].clone(), P_all.space)
            r = Points(R_all.as_tensor[ii].clone(), R_all.space) if porder else Points.empty()
        res["transitions"] += 1
        return _contains(D_, Points(p.as_tensor.clone(), p.space), r)

    try:
        raw = call(D)
    except Exception as e:
        if is_deliberate(e):
            res["rejected"] += 1
            res["states"] = [name]
            res["outcomes"] = [name + "|rejected"]
            res["evals"] = 1
            return res
        viol("contains-error", "_contains raised %s: %s" % (exc_sig(e), str(e)[:200]), {"ast": a})
        return res
    lib = _truth(raw, n)
    res["evals"] += n
    if lib is None:
        viol("not-one-truth-value-per-row", "%d rows gave a result of shape %s" % (n, tuple(torch.as_tensor(raw).shape)),
             {"ast": a, "rows": n})
        return res
    res["states"] = ["%s@%s" % (name, sorted(th.items())) for th in thetas]
    res["outcomes"] = ["%s|%s" % (name, hashlib.sha1(lib.tobytes()).hexdigest()[:8])] if (lib.any() and not lib.all()) else []

    # (ii) denotational
    far = G.far_from(a, vals32, TOL_FAR * scale)
    bad = np.where(lib & far)[0]
    if len(bad):
        i = int(bad[0])
        viol("accepts-far-point", "accepts %d point(s) farther than tol from the set, e.g. %s params %s" % (
            len(bad), allp[i].tolist(), allprm[i].tolist()), {"ast": a, "point": allp[i], "params": allprm[i]})
    if solid:
        f = G.sdf(a, vals32)
        bad = np.where(~lib & (f < -TOL_FAR * scale))[0]
        if len(bad):
            i = int(bad[0])
            viol("rejects-interior-point", "rejects %d interior point(s) (sdf %.3g), e.g. %s params %s" % (
                len(bad), f[i], allp[i].tolist(), allprm[i].tolist()), {"ast": a, "point": allp[i], "params": allprm[i]})

    # rows on the surface of a triangulated polyhedron have no specified answer (ray casting; it varies with the rest
    # of the batch); all other rows must agree exactly
    dec = ~G.mesh_ambiguous(a, vals32, TOL_ON * scale) if G.has_mesh(a) else np.ones(n, dtype=bool)
    # (i) structural, exact
    k = a["k"]
    if k in ("union", "cut", "inter", "prod"):
        try:
            la = _truth(call(Bd.build_tp(a["a"])), n)
            lb = _truth(call(Bd.build_tp(a["b"])), n)
            exp = {"union": la | lb, "inter": la & lb, "cut": la & ~lb, "prod": la & lb}[k]
            bad = np.where((exp != lib) & dec)[0]
            if len(bad):
                i = int(bad[0])
                viol("not-%s-of-operands" % {"union": "or", "inter": "and", "cut": "andnot", "prod": "and"}[k],
                     "%d row(s) differ from the Boolean combination of the operands' answers, e.g. %s params %s" % (
                         len(bad), allp[i].tolist(), allprm[i].tolist()), {"ast": a, "point": allp[i]}, flavor=k)
        except Exception as e:
            if not is_deliberate(e):
                viol("contains-error", "operand _contains raised %s" % exc_sig(e), {"ast": a})

    # (v) the same expression over a space of ONE-dimensional variables (x, x_b[, x_c]) and query points whose columns are
    #     STORED in the reverse order: membership goes by variable name, so the answers are the same
    if same_space and sum(d for _, d in G.space_vars(a)) >= 2:
        try:
            Dt = Bd.build_tp(a, split=True)
            var0 = G.space_vars(a)[0][0]
            dim0 = G.space_vars(a)[0][1]
            cols = P_all.as_tensor
            coordsr = {var0 + Bd.SPLIT_SUFFIX[i]: cols[:, i:i + 1].clone() for i in reversed(range(dim0))}
            Pr = Points.from_coordinates(coordsr)
            res["transitions"] += 1
            lt = _truth(_contains(Dt, Pr, R_all), n)
            if lt is None or ((lt != lib) & dec).any():
                i = int(np.where((lt != lib) & dec)[0][0]) if lt is not None else 0
                viol("variable-order-dependence", "over the space %s with the query columns stored as %s, %d answer(s) differ from the single-variable form, e.g. at %s" % (
                    list(Dt.space.keys()), list(coordsr.keys()), int(((lt != lib) & dec).sum()) if lt is not None else -1, allp[i].tolist()), {"ast": a})
        except Exception as e:
            if not is_deliberate(e):
                viol("contains-error", "split-variable form raised %s: %s" % (exc_sig(e), str(e)[:160]), {"ast": a}, flavor="split")

    # (iv) row independence: permuted rows and single-theta sub-batches give the same answers
    perm = np.random.RandomState(1).permutation(n)
    lp = _truth(call(D, perm), n)
    if lp is None or ((lp != lib[perm]) & dec[perm]).any():
        viol("row-order-dependence", "answers change when the rows of the batch are permuted", {"ast": a})
    start = 0
    for th, blk in zip(tags, blocks):
        idx = np.arange(start, start + len(blk))
        start += len(blk)
        if len(thetas) > 1:
            ls = _truth(call(D, idx), len(idx))
            if ls is None or ((ls != lib[idx]) & dec[idx]).any():
                viol("batch-dependence", "answers for parameter row %s change when the other rows are removed" % th, {"ast": a})
                break

    # (iii) boundary membership: accept reference boundary points and own samples
    if not solid and a["k"] != "point":
        _boundary_side(a, D, thetas, scale, res, viol, porder, order)
    res["samples"] = [{"expr": name, "rows": int(n), "thetas": thetas[:3], "members": int(lib.sum())}]
    return res


def _boundary_side(a, D, thetas, scale, res, viol, porder, order):
    same_space = not G.has_kind_prod(a)
    for th in thetas:
        prm1 = Bd.points_of({v: np.array([[th[v]]]) for v in porder}, porder)
        # reference boundary points that are on the boundary of the whole expression
        if same_space and a["k"] in ("boundary",):
            inner = a["a"]
            bp = _leaf_boundary_points(inner, th, m=96)
            if len(bp):
                vals = split_space(a, bp)
                for v in porder:
                    vals[v] = np.full((len(bp), 1), th[v])
                P32 = Bd.points_of(vals, order)
                v32 = Bd.to_vals(P32)
                for v in porder:
                    v32[v] = vals[v]
                on = G.near_boundary(inner, v32, 2e-6 * scale)
                # drop junction neighbourhoods (corners are legitimately ambiguous for closeness tests)
                if on.any():
                    R = Bd.points_of(vals, porder)
                    res["transitions"] += 1
                    try:
                        lib = _truth(_contains(D, P32, R), len(bp))
                    except Exception as e:
                        if not is_deliberate(e):
                            viol("contains-error", "_contains raised %s" % exc_sig(e), {"ast": a})
                        lib = None
                    if lib is not None:
                        res["evals"] += int(on.sum())
                        bad = np.where(on & ~lib)[0]
                        if len(bad):
                            i = int(bad[0])
                            viol("ref-boundary-point-rejected", "rejects %d of %d reference boundary points (float32-rounded), e.g. %s at %s" % (
                                len(bad), int(on.sum()), bp[i].tolist(), th), {"ast": a, "point": bp[i], "theta": th},
                                flavor="%s|%s" % (top_sig(a), "+".join(sorted(leaf_flavors(a)))))
        # boundaries of products of primitives: independent description (dA x B) u (A x dB)
        if a["k"] == "boundary" and a["a"]["k"] == "prod" and a["a"]["a"]["k"] in G.PRIMS and a["a"]["b"]["k"] == "interval":
            A, Bf = a["a"]["a"], a["a"]["b"]
            tv = Bf["var"]
            lo, hi = float(G.ev(Bf["a"], {}, 1)[0]), float(G.ev(Bf["b"], {}, 1)[0])
            cand = []
            for t in np.linspace(lo, hi, 7)[1:-1]:            # mantle: boundary of A(t) at interior t
                row = {tv: np.array([[t]])}
                row.update({v: np.array([[th[v]]]) for v in porder})
                bp = G.boundary_points(A, row, (np.arange(16) + 0.37) / 16)
                cand.append(np.concatenate([bp, np.full((len(bp), 1), t)], 1))
            for t in (lo, hi):                                # lids: members of A(t) at the end points of B
                row = {tv: np.array([[t]])}
                row.update({v: np.array([[th[v]]]) for v in porder})
                bx = G.ref_box(A, row)[0]
                q = lattice_points(bx, inflate=-0.1, m2=5, m1=7, m3=3)
                vq = {A["var"]: q, tv: np.full((len(q), 1), t)}
                vq.update({v: np.full((len(q), 1), th[v]) for v in porder})
                q = q[G.sdf(A, vq) < -1e-3 * scale]
                cand.append(np.concatenate([q, np.full((len(q), 1), t)], 1))
            cand = np.concatenate(cand)
            vals = split_space(a, cand)
            for v in porder:
                vals[v] = np.full((len(cand), 1), th[v])
            P32 = Bd.points_of(vals, order)
            v32 = Bd.to_vals(P32)
            for v in porder:
                v32[v] = vals[v]
            on = G.near_boundary(a["a"], v32, 2e-6 * scale)
            R = Bd.points_of(vals, porder)
            res["transitions"] += 1
            try:
                lib = _truth(_contains(D, P32, R), len(cand))
                res["evals"] += int(on.sum())
                bad = np.where(on & ~lib)[0] if lib is not None else []
                if len(bad):
                    i = int(bad[0])
                    viol("product-boundary-point-rejected", "rejects %d of %d reference points of the product boundary (mantle and lids), e.g. %s at %s" % (
                        len(bad), int(on.sum()), cand[i].tolist(), th), {"ast": a, "point": cand[i], "theta": th}, flavor=kind_sig(a["a"]))
            except Exception as e:
                if not is_deliberate(e):
                    viol("contains-error", "_contains on product boundary points raised %s" % exc_sig(e), {"ast": a})
        # own samples
        for mode, n in (("grid", 24), ("random", 64)):
            try:
                with Seam() as sm:
                    if mode == "grid":
                        S = D.sample_grid(n=n, params=prm1)
                    else:
                        S = D.sample_random_uniform(n=n, params=prm1)
            except SeamBudget:
                continue
            except Exception:
                continue        # sampling failures are C01's business
            m = len(S)
            if m == 0:
                continue
            R = Points(prm1.as_tensor.repeat(m, 1), prm1.space) if porder else Points.empty()
            if S.as_tensor.shape[0] != m or (porder and len(R) != m):
                continue
            res["transitions"] += 1
            try:
                lib = _truth(_contains(D, Points(S.as_tensor.clone(), S.space), R), m)
            except Exception as e:
                if not is_deliberate(e):
                    viol("contains-error", "_contains on own samples raised %s" % exc_sig(e), {"ast": a})
                continue
            if lib is None:
                continue
            res["evals"] += m
            # only samples that are on the reference boundary are owed acceptance (others are C01's business)
            vals = Bd.to_vals(S)
            for v in porder:
                vals[v] = np.full((m, 1), th[v])
            ok = G.member(a, vals, TOL_ON * scale)
            bad = np.where(ok & ~lib)[0]
            if len(bad):
                i = int(bad[0])
                viol("own-boundary-sample-rejected", "%s sampling: rejects %d of %d of its own boundary samples, e.g. %s at %s" % (
                    mode, len(bad), m, S.as_tensor[i].tolist(), th), {"ast": a, "theta": th, "mode": mode, "n": n},
                    flavor="%s|%s" % (top_sig(a), "+".join(sorted(leaf_flavors(a)))))
