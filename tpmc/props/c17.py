"""C17 -- partially evaluating a domain is the same as supplying the parameters."""
import itertools
import numpy as np
import torch

from ..kernel.seam import Seam, SeamBudget
from ..ref import geom as G
from ..ref import build as Bd
from ..ref import lattice as L
from .geo_common import *  # noqa

PROP = "C17"
LEVEL = "model_checking"
TECHNIQUE = ("explicit exploration of call histories D(..)(..) on parameter-dependent domain expressions (all subsets of "
             "variables, all lattice values, three value encodings), each reached state compared with the original "
             "queried with the parameters and with the substituted reference expression")
RULE = ("every parameter-dependent DEL expression x every history of <= 2 partial evaluations over its free variables "
        "(values on {0,.5,1}; float / 0-d tensor / (1,1) tensor) x observations {membership lattice, volume, bounding box, "
        "samples, necessary_variables, boundary before/after}; distinct by (expression, history); non-trivial when the "
        "evaluated domain was constructed and compared")
ASSUMPTIONS = ["reference substitution tpmc/ref/geom.substitute and denotation tpmc/ref/geom.py",
               "membership of evaluated vs original may differ only within 1e-3*scale of the reference boundary (float rounding of constants)"]
BOUNDS = {"quick": {"history": 2, "values": L.TH, "encodings": ["tensor0d", "tensor11", "float"]},
          "thorough": {"history": 2, "values": L.TH, "encodings": ["tensor0d", "tensor11", "float"]}}
ITEM_LIMIT = {"quick": 600, "thorough": 1800}


def exprs(tier):
    two = [L.C_ST, L.Rot(L.SQ, L.aff(0, s=1, t=1)), L.Tr(L.C_GROW, [L.aff(0, s=1), 0.0]),
           L.Cut(L.SQ_MOVE, L.C([L.aff(0.5, s=0.2, t=1), 0.5], 0.2), contained=True),
           L.U(L.C_GROW, L.C([L.aff(3, s=1), 0], 0.5), disjoint=True), L.I(L.aff(0, s=1), L.aff(2, s=1, t=1))]
    C_S = L.C([L.aff(0.5, s=0.3), 0.5], 0.6)
    # operands with DIFFERENT variable sets (a variable of the second operand must not leak into the first)
    mixed = [L.N(L.SQ, L.C_GROW), L.N(C_S, L.SQ_MOVE), L.U(L.SQ, L.C_GROW), L.U(C_S, L.SQ_MOVE), L.Cut(C_S, L.G_CMOVE),
             L.Tr(L.N(L.SQ, L.C_GROW), [L.aff(0, t=1), 0.0]), L.X(L.N(L.SQ, L.C([0.5, 0.5], L.aff(0.3, s=0.3))), L.IT)]
    out = [a for a in L.solids(tier) + L.products(tier) if G.free_vars(a)] + two + mixed
    out += [L.B(a) for a in out if G.is_solid(a) and not G.has_kind_prod(a)][: (25 if tier == "quick" else 10 ** 6)]
    out += [L.BL(L.I_MOVE), L.BR(L.I_GROW), L.Pt([L.aff(0, t=1), 0.5])]
    # single end points of an interval whose bounds depend on TWO variables (partial evaluations leave one open)
    i2 = L.I(L.aff(0, s=1, t=0.5), L.aff(2, s=1, t=1))
    out += [L.BL(i2), L.BR(i2)]
    # shape / motion functions that DECLARE a default for a variable: fixing that optional variable by a call must count
    # one parameter in exactly ONE constructor slot of a primitive (a slot forgotten when the needed variables are
    # registered or when the shape is partially evaluated shows only here), and two parameters in different slots
    out += [L.T([0, 0], [1, 0], [0.3, L.aff(0.8, t=0.5)]), L.T([0, 0], [L.aff(1, t=0.5), 0.1], [0.2, 1]),
            L.T([L.aff(-0.2, t=0.3), 0], [1, 0], [0.3, 0.9]), L.T([L.aff(-0.2, s=0.3), 0], [1, 0.1], [0.3, L.aff(0.8, t=0.5)]),
            L.P([0, 0], [1, 0], [0.2, L.aff(0.8, t=0.5)]), L.P([0, 0], [L.aff(1, t=0.5), 0.1], [0.2, 1]),
            L.P([L.aff(-0.2, s=0.3), 0], [1, 0.1], [0.2, L.aff(0.8, t=0.5)]),
            L.I(L.aff(-1, t=0.5), 1), L.S([0.1, L.aff(0, t=0.4), 0], 0.5), L.C([0.2, L.aff(0, t=0.4)], 0.5)]
    out += L.default_exprs(tier)[:3] + L.default_exprs(tier)[4:] + [L.Rot(L.SQ, G.affd(0.0, {"w": 1.0}, t=1.0, w=0.5))]
    return L.dedupe(out)


def items(tier):
    return [{"name": G.show(a), "ast": a, "tier": tier} for a in exprs(tier)]


def encode(v, enc):
    if enc == "float":
        return float(v)
    if enc == "tensor0d":
        return torch.tensor(float(v))
    return torch.tensor([[float(v)]])


def histories(fv, values):
    """lists of steps; a step is a dict var -> value"""
    fv = sorted(fv)
    out = []
    for r in range(1, len(fv) + 1):
        for sub in itertools.combinations(fv, r):
            for vals in itertools.product(values, repeat=r):
                out.append([dict(zip(sub, vals))])
    if len(fv) == 2:
        a, b = fv
        for va, vb in itertools.product(values, repeat=2):
            out.append([{a: va}, {b: vb}])
            out.append([{b: vb}, {a: va}])
    # repeated evaluation with the SAME value of an already fixed variable must not change anything
    # (re-binding a fixed variable to another value is not defined by the property and not explored)
    out.append([{fv[0]: values[1]}, {fv[0]: values[1]}])
    return out


def run_item(item):
    a, tier = item["ast"], item["tier"]
    name = item["name"]
    res = {"evals": 0, "transitions": 0, "states": [], "outcomes": [], "violations": [], "rejected": 0, "samples": []}
    seen = set()

    def viol(key, what, detail=None):
        if key in seen:
            return
        seen.add(key)
        res["violations"].append({"key": key, "what": "%s: %s" % (name, what), "detail": detail or {"ast": a}})

    fv = sorted(G.free_vars(a))
    try:
        D = Bd.build_tp(a)
    except Exception as e:
        if is_deliberate(e):
            res["rejected"] += 1
            return res
        viol("C17|error|%s|constructor|%s" % (type(e).__name__, top_sig(a)), "constructor raised %s" % exc_sig(e))
        return res
    nv0 = set(D.necessary_variables)
    opt = G.defaulted_vars(a)        # optional (defaulted) variables are not "needed"
    if nv0 != set(fv) - opt:
        viol("C17|necessary-variables|%s" % top_sig(a), "necessary_variables = %s, free variables of the expression = %s" % (sorted(nv0), fv))

    def check_tree(Dx, ax, when):
        """every operand object inside the expression declares exactly the free variables of its sub-expression
        (building or evaluating the composite must not leak variables into its operands)"""
        k = ax["k"]
        subs = []
        if k in ("union", "cut", "inter", "prod"):
            subs = [(getattr(Dx, "domain_a", None), ax["a"]), (getattr(Dx, "domain_b", None), ax["b"])]
        elif k in ("translate", "rotate"):
            subs = [(getattr(Dx, "domain", None), ax["a"])]
        elif k == "boundary":
            inner = getattr(Dx, "domain", None)
            if inner is not None and ax["a"]["k"] not in ("translate", "rotate"):
                subs = [(inner, ax["a"])]
        for sub, sa in subs:
            if sub is None or not hasattr(sub, "necessary_variables"):
                continue
            want = set(G.free_vars(sa)) - G.defaulted_vars(sa)
            if set(sub.necessary_variables) != want:
                viol("C17|operand-necessary-variables|%s" % top_sig(ax),
                     "%s: operand %s declares necessary_variables %s, its free variables are %s" % (when, G.show(sa), sorted(sub.necessary_variables), sorted(want)))
            check_tree(sub, sa, when)
    check_tree(D, a, "after construction")
    solid = G.is_solid(a)
    order = space_order(a)
    encs = BOUNDS[tier]["encodings"]
    thetas = theta_rows(fv)
    box = hull_box(a, [th for th in thetas if L.positive_measure(a, th)] or thetas)
    scale = scale_of(box)
    Q = lattice_points(box, m2=13, m1=25, m3=7)

    def observe(Dx, ax, theta_rest):
        """membership on the lattice, volume, box of Dx at the remaining parameters theta_rest"""
        n = len(Q)
        vals = split_space(ax, Q)
        for v, x in theta_rest.items():
            vals[v] = np.full((n, 1), x)
        P = Bd.points_of(vals, order)
        R = Bd.points_of(vals, sorted(theta_rest))
        obs = {}
        with Seam():
            m = Dx._contains(Points(P.as_tensor.clone(), P.space), R) if theta_rest else Dx._contains(Points(P.as_tensor.clone(), P.space))
            obs["contains"] = (torch.as_tensor(m).reshape(-1) != 0).numpy()
            prm1 = Bd.params_points({v: [x] for v, x in theta_rest.items()}) if theta_rest else Points.empty()
            try:
                obs["volume"] = torch.as_tensor(Dx.volume(prm1) if theta_rest else Dx.volume()).double().reshape(-1).numpy()
            except Exception as e:
                obs["volume"] = "ERR %s" % exc_sig(e) if not is_deliberate(e) else None
            try:
                bb = Dx.bounding_box(prm1) if theta_rest else Dx.bounding_box()
                obs["box"] = torch.as_tensor(bb).double().reshape(-1).numpy()
            except Exception as e:
                obs["box"] = "ERR %s" % exc_sig(e) if not is_deliberate(e) else None
        return obs, Bd.to_vals(P, R)

    for hist in histories(fv, BOUNDS[tier]["values"]):
        # a shape function is evaluated as soon as its REQUIRED variables are bound, absent optional ones taking their
        # defaults (that is C13's rule); so only histories whose first call fixes every optional variable have the
        # plain meaning "the original evaluated at these values"
        if opt and not opt <= set(hist[0]):
            continue
        fixed = {}
        for step in hist:
            for v, x in step.items():
                fixed.setdefault(v, x)         # a variable fixed earlier stays fixed
        if not all(L.positive_measure(a, dict(fixed, **{v: th[v] for v in fv if v not in fixed})) for th in thetas):
            continue
        ref_ast = G.substitute(a, fixed)
        rest_vars = [v for v in fv if v not in fixed]
        for enc in encs:
            st = "%s|%s|%s" % (name, hist, enc)
            res["states"].append(st)
            res["transitions"] += len(hist)
            res["evals"] += 1
            D = Bd.build_tp(a)
            before = {v: x.copy() if hasattr(x, "copy") else x for v, x in observe(D, a, {v: 0.5 for v in fv})[0].items()}
            try:
                E = D
                for step in hist:
                    E = E(**{v: encode(x, enc) for v, x in step.items()})
            except Exception as e:
                if is_deliberate(e):
                    res["rejected"] += 1
                    continue
                viol("C17|error|%s|call|%s|%s" % (type(e).__name__, top_sig(a), enc), "history %s (%s) raised %s: %s" % (hist, enc, exc_sig(e), str(e)[:120]))
                continue
            # necessary variables = free variables of the substituted expression
            try:
                nv = set(E.necessary_variables)
                if nv != set(rest_vars) - opt:
                    viol("C17|necessary-variables-after-call|%s" % top_sig(a), "after %s necessary_variables = %s, expected %s" % (hist, sorted(nv), rest_vars))
            except Exception as e:
                viol("C17|error|%s|necessary_variables|%s" % (type(e).__name__, top_sig(a)), "necessary_variables after %s raised %s" % (hist, exc_sig(e)))
            ok_all = True
            for rest in (theta_rows(rest_vars) if rest_vars else [{}]):
                full = dict(fixed, **rest)
                try:
                    oe, vals32 = observe(E, ref_ast, rest)
                    oo, _ = observe(D, a, full)
                except Exception as e:
                    ok_all = False
                    if not is_deliberate(e):
                        viol("C17|error|%s|observe|%s|%s" % (type(e).__name__, top_sig(a), enc), "querying the domain evaluated by %s (%s) raised %s: %s" % (hist, enc, exc_sig(e), str(e)[:120]))
                    break
                for v, x in fixed.items():
                    vals32[v] = np.full((len(Q), 1), x)
                near = np.abs(G.sdf(a, vals32)) <= TOL_FAR * scale if solid else None
                if solid:
                    diff = (oe["contains"] != oo["contains"]) & ~near
                else:
                    far = G.far_from(a, vals32, TOL_FAR * scale)
                    diff = (oe["contains"] != oo["contains"]) & far
                if diff.any():
                    i = int(np.where(diff)[0][0])
                    ok_all = False
                    viol("C17|membership-differs|%s" % top_sig(a), "after %s (%s) membership of %s differs from the original at %s (evaluated says %s)" % (
                        hist, enc, Q[i].tolist(), full, bool(oe["contains"][i])))
                for what, rtol in (("volume", 1e-5), ("box", 1e-5)):
                    x, y = oe[what], oo[what]
                    if isinstance(x, str) or isinstance(y, str):
                        if isinstance(x, str) and not isinstance(y, str):
                            ok_all = False
                            viol("C17|error|%s-after-call|%s" % (what, top_sig(a)), "%s of the domain evaluated by %s (%s) raised %s" % (what, hist, enc, x))
                        continue
                    if x is None or y is None:
                        continue
                    if x.shape != y.shape or not np.allclose(x, y, rtol=rtol, atol=1e-5 * scale):
                        if what == "box" and _dependent_prod(a):
                            continue      # sampled estimate (open finding of C18), not comparable
                        ok_all = False
                        viol("C17|%s-differs|%s" % (what, top_sig(a)), "after %s (%s) %s = %s, original at %s gives %s" % (
                            hist, enc, what, np.round(x, 5).tolist(), full, np.round(y, 5).tolist()))
                # samples of the evaluated domain lie in the substituted set
                prm1 = Bd.params_points({v: [x] for v, x in rest.items()}) if rest else Points.empty()
                for mode in ("random", "grid"):
                    try:
                        with Seam():
                            S = E.sample_random_uniform(n=16, params=prm1) if mode == "random" else E.sample_grid(n=12, params=prm1)
                    except Exception as e:
                        if not is_deliberate(e) and not isinstance(e, SeamBudget):
                            ok_all = False
                            viol("C17|error|%s|sample-after-call|%s" % (type(e).__name__, top_sig(a)), "%s sampling of the domain evaluated by %s (%s) raised %s: %s" % (mode, hist, enc, exc_sig(e), str(e)[:100]))
                        continue
                    sv = Bd.to_vals(S)
                    for v, x in full.items():
                        sv[v] = np.full((len(S), 1), x)
                    if len(S) and all(v in sv for v in order):
                        okm = G.member(a, sv, TOL_ON * scale)
                        if not okm.all():
                            ok_all = False
                            i = int(np.where(~okm)[0][0])
                            viol("C17|sample-outside|%s" % top_sig(a), "after %s (%s) the %s sample %s is not in the set at %s" % (
                                hist, enc, mode, {v: sv[v][i].tolist() for v in order}, full))
            # branch: evaluate the ORIGINAL again, fixing a different variable; the earlier history must not show
            for u in fv:
                if u in hist[0] or opt:
                    continue
                for w in BOUNDS[tier]["values"][:2]:
                    try:
                        E2 = D(**{u: encode(w, enc)})
                        nv2 = set(E2.necessary_variables)
                        if nv2 != set(fv) - {u} - opt:
                            viol("C17|original-changed|branch-necessary-variables|%s" % top_sig(a),
                                 "after %s, evaluating the ORIGINAL at %s=%s gives necessary_variables %s, expected %s" % (hist, u, w, sorted(nv2), sorted(set(fv) - {u})))
                            continue
                        rest2 = {v: 0.5 for v in fv if v != u}
                        o2, v2 = observe(E2, G.substitute(a, {u: w}), rest2)
                        o1, _ = observe(Bd.build_tp(a), a, dict(rest2, **{u: w}))
                        v2[u] = np.full((len(Q), 1), w)
                        farb = (np.abs(G.sdf(a, v2)) > TOL_FAR * scale) if solid else G.far_from(a, v2, TOL_FAR * scale)
                        if ((o2["contains"] != o1["contains"]) & farb).any():
                            viol("C17|original-changed|branch-membership|%s" % top_sig(a),
                                 "after %s, evaluating the ORIGINAL at %s=%s denotes another set than a fresh domain at those values" % (hist, u, w))
                        # ... and has the same box (exact for everything but dependent products, whose box is sampled)
                        if not _dependent_prod(a) and isinstance(o2["box"], np.ndarray) and isinstance(o1["box"], np.ndarray) and \
                                (o2["box"].shape != o1["box"].shape or not np.allclose(o2["box"], o1["box"], rtol=1e-5, atol=1e-6)):
                            viol("C17|original-changed|branch-box|%s" % top_sig(a),
                                 "after %s, evaluating the ORIGINAL at %s=%s gives the box %s, a fresh domain at those values %s" % (
                                     hist, u, w, np.round(o2["box"], 4).tolist(), np.round(o1["box"], 4).tolist()))
                    except Exception as e:
                        if not is_deliberate(e):
                            viol("C17|error|%s|branch|%s" % (type(e).__name__, top_sig(a)), "after %s, evaluating the original at %s=%s raised %s: %s" % (hist, u, w, exc_sig(e), str(e)[:100]))
            check_tree(D, a, "after the history %s" % hist)
            # the original is unchanged
            try:
                after = observe(D, a, {v: 0.5 for v in fv})[0]
                for what in ("contains", "volume", "box"):
                    x, y = before[what], after[what]
                    if isinstance(x, np.ndarray) and isinstance(y, np.ndarray) and (x.shape != y.shape or not np.array_equal(x, y)):
                        if what == "box" and _dependent_prod(a):
                            continue
                        viol("C17|original-changed|%s|%s" % (what, top_sig(a)), "%s of the ORIGINAL domain changed after the history %s (%s)" % (what, hist, enc))
                if set(D.necessary_variables) != nv0:
                    viol("C17|original-changed|necessary_variables|%s" % top_sig(a), "necessary_variables of the original changed after %s" % hist)
            except Exception as e:
                viol("C17|error|%s|original-after-call|%s" % (type(e).__name__, top_sig(a)), "querying the original after %s raised %s" % (hist, exc_sig(e)))
            if ok_all:
                res["outcomes"].append(st)
    res["samples"] = [{"expr": name, "free": fv, "histories": len(histories(fv, BOUNDS[tier]["values"]))}]
    return res


def _dependent_prod(a):
    if a["k"] == "prod" and G.free_vars(a["a"]) & {v for v, _ in G.space_vars(a["b"])}:
        return True
    return any(_dependent_prod(v) for v in a.values() if isinstance(v, dict))
