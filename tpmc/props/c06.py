"""C06 -- boundary normals are finite outward unit vectors."""
import numpy as np
import torch

from ..kernel.seam import Seam, SeamBudget
from ..ref import geom as G
from ..ref import build as Bd
from ..ref import lattice as L
from .geo_common import *  # noqa

PROP = "C06"
LEVEL = "model_checking"
TECHNIQUE = ("bounded-exhaustive enumeration of boundary expressions (primitives in both orientations, one/two Boolean "
             "operators) x parameter rows x the library's own boundary samples under scripted random answers (net, all-zero, "
             "all-one); outwardness decided by the float64 reference membership of p +/- h*n")
RULE = ("every boundary expression x parameter rows (single rows and mixed batches) x samples {grid 8, grid 40, net 256, "
        "ZERO 4, ONE 4}; a case is a sampled boundary point that the reference accepts as boundary point and that is "
        "farther than 3h from a junction (polygon vertex / meeting of two leaf boundaries); distinct by (expression, row, "
        "sampler); non-trivial when at least one point was judged")
ASSUMPTIONS = ["reference membership tpmc/ref/geom.py; step h = 1e-3*scale",
               "triangles are generated counter-clockwise (documented precondition for normals); parallelograms in both orientations",
               "translated/rotated boundaries expose no normal() and are outside this property's statement"]
BOUNDS = {"quick": {"samplers": ["grid8", "grid40", "net256", "zero4", "one4"], "boolean_depth": 1},
          "thorough": {"samplers": ["grid8", "grid40", "net1024", "zero4", "one4"], "boolean_depth": 2}}
ITEM_LIMIT = {"quick": 600, "thorough": 1800}


def _has(a, kinds):
    return has_kind(a, kinds)


def _cw_tri(a):
    if a["k"] == "tri":
        v = G.prim_vertices(a, {x: np.zeros((1, 1)) for x in G.free_vars(a)}, 1)[0]
        return G.loop_area(v) < 0
    return any(_cw_tri(v) for v in a.values() if isinstance(v, dict))


def items(tier):
    sol = [a for a in L.solids(tier) if not _has(a, ("translate", "rotate")) and not _cw_tri(a)]
    out = [{"name": G.show(L.B(a)), "ast": a, "tier": tier} for a in L.dedupe(sol)]
    # very thin intervals (the two end points are closer than any absolute tolerance a developer might pick); constant
    # ones only: the step h of the oracle follows the hull of the shape over all parameter rows
    THIN = [L.I(0, 5e-4), L.I(-2e-4, 3e-4), L.I(0, 2e-5)]
    out += [{"name": G.show(L.B(a)), "ast": a, "tier": tier, "thin": True} for a in THIN]
    for a, side in ((L.I01, "bleft"), (L.I01, "bright"), (L.I_MOVE, "bleft"), (L.I_MOVE, "bright"), (L.I_GROW, "bright"),
                    (THIN[0], "bleft"), (THIN[0], "bright"), (THIN[1], "bright")):
        out.append({"name": G.show({"k": side, "a": a}), "ast": a, "tier": tier, "side": side, "thin": any(a is t_ for t_ in THIN)})
    for shape in ("tetra", "box"):
        for winding in ("out", "in"):
            for source in ("arrays", "file"):
                out.append({"name": "trimesh|%s|%s|%s" % (shape, winding, source), "trimesh": [shape, winding, source], "ast": None, "tier": tier})
    return out


def run_trimesh(item):
    """normals of a TrimeshPolyhedron boundary (vertices/faces in either winding, or loaded from a file)"""
    import os, shutil, tempfile
    from ..ref import poly3d as P3
    res = {"evals": 0, "transitions": 0, "states": [], "outcomes": [], "violations": [], "rejected": 0, "samples": []}
    shape, winding, source = item["trimesh"]
    name = item["name"]
    v, f = P3.SHAPES[shape]
    tmp = tempfile.mkdtemp(prefix="tpmc_c06_", dir=os.environ.get("TMPDIR"))
    try:
        D = P3.build(shape, winding, source, tmp).boundary
        for mode, n in (("grid", 40), ("random", 200)):
            np.random.seed(4321)
            res["states"].append("%s|%s" % (name, mode))
            res["transitions"] += 1
            S = D.sample_grid(n=n) if mode == "grid" else D.sample_random_uniform(n=n)
            pts = S.as_tensor.double().numpy()
            nrm = torch.as_tensor(D.normal(S)).double().numpy()
            h = 1e-3
            t = np.asarray(v, dtype=np.float64)[np.asarray(f)]
            fn = np.cross(t[:, 1] - t[:, 0], t[:, 2] - t[:, 0])
            fn = fn / np.linalg.norm(fn, axis=1, keepdims=True)
            dist = np.abs(np.einsum("pj,fj->pf", pts, fn) - np.einsum("fj,fj->f", fn, t[:, 0])[None, :])
            planes = np.unique(np.round(np.concatenate([fn * np.sign(fn[:, [np.argmax(np.abs(fn[0]))]] + 1e-12), np.einsum("fj,fj->f", fn, t[:, 0])[:, None]], 1), 6), axis=0)
            judged = (np.abs(P3.sdf_bound(v, f, pts)) <= 1e-4)
            # skip points within 3h of an edge: two different face planes close
            close = np.zeros(len(pts), dtype=int)
            seen_planes = []
            for k in range(len(fn)):
                key = tuple(np.round(np.concatenate([fn[k] * (1 if fn[k][np.argmax(np.abs(fn[k]))] > 0 else -1), [abs(np.dot(fn[k], t[k, 0]))]]), 5))
                if key in seen_planes:
                    continue
                seen_planes.append(key)
                close += (dist[:, k] <= 3 * h).astype(int)
            judged &= close <= 1
            idx = np.where(judged)[0]
            res["evals"] += len(idx)
            if not len(idx):
                continue
            sub_ = nrm[idx]
            if not np.isfinite(sub_).all() or (np.abs(np.linalg.norm(sub_, axis=1) - 1) > 1e-4).any():
                res["violations"].append({"key": "C06|trimesh-not-unit", "what": "%s %s: a normal is not a finite unit vector" % (name, mode), "detail": {"item": name}})
                continue
            out = P3.sdf_bound(v, f, pts[idx] + h * sub_)
            inn = P3.sdf_bound(v, f, pts[idx] - h * sub_)
            bad = (out <= 0) | (inn > 0)
            if bad.any():
                i = idx[np.where(bad)[0][0]]
                res["violations"].append({"key": "C06|not-outward|trimesh", "what": "%s %s: normal %s at %s does not point out of the polyhedron (%d of %d judged points)" % (
                    name, mode, np.round(nrm[i], 3).tolist(), np.round(pts[i], 4).tolist(), int(bad.sum()), len(idx)), "detail": {"item": name}})
            else:
                res["outcomes"].append("%s|%s" % (name, mode))
    except Exception as e:
        res["violations"].append({"key": "C06|error|%s|trimesh" % type(e).__name__, "what": "%s raised %s: %s" % (name, type(e).__name__, str(e)[:120]), "detail": {"item": name}})
    finally:
        shutil.rmtree(tmp, ignore_errors=True)
    res["samples"] = [{"trimesh": name}]
    return res


def run_item(item):
    if item.get("trimesh"):
        return run_trimesh(item)
    a, tier = item["ast"], item["tier"]      # a is the SOLID; the boundary expression is B(a)
    name = item["name"]
    res = {"evals": 0, "transitions": 0, "states": [], "outcomes": [], "violations": [], "rejected": 0, "samples": []}
    seen = set()

    def viol(key, what, detail=None):
        if key in seen:
            return
        seen.add(key)
        res["violations"].append({"key": key, "what": "%s: %s" % (name, what), "detail": detail or {"ast": a}})

    fv = sorted(G.free_vars(a))
    side = item.get("side")
    bexpr = {"k": side, "a": a} if side else L.B(a)
    try:
        D = Bd.build_tp(bexpr)
    except Exception as e:
        if is_deliberate(e):
            res["rejected"] += 1
            return res
        viol("C06|error|%s|constructor|%s" % (type(e).__name__, top_sig(a)), "constructor raised %s: %s" % (exc_sig(e), e))
        return res
    thetas = [th for th in theta_rows(fv) if L.positive_measure(a, th)]
    if not thetas:
        return res
    box = hull_box(a, thetas)
    scale = scale_of(box)
    h = 1e-3 * scale
    if item.get("thin"):
        h = 1e-3 * float(np.min(box[:, 1] - box[:, 0]))      # shapes far smaller than the unit scale: step relative to the shape
    var, dim = G.space_vars(a)[0]
    _lv = G.leaves(a)
    lvs = [lf for lf, _ in _lv]
    dict_maps = {id(lf): mp for lf, mp in _lv}
    flav = "+".join(sorted(leaf_flavors(a)))

    def judge(pts, prm_vals, tag, Dn=None, with_params=True):
        """pts (n,dim) float64 as returned by the library, prm_vals var->(n,1); Dn: boundary object to ask"""
        Dn = D if Dn is None else Dn
        n = len(pts)
        vals = {var: pts}
        vals.update(prm_vals)
        on = G.member(bexpr, vals, TOL_ON * scale)
        # junctions: vertices of polygonal leaves, meetings of two leaf boundaries
        close = np.zeros(n, dtype=int)
        nearv = np.zeros(n, dtype=bool)
        for lf in lvs:
            close += (np.abs(G.sdf(lf, vals)) <= 3 * h).astype(int)
            if lf["k"] in ("para", "tri"):
                V = G.prim_vertices(lf, vals, n)
                for j in range(V.shape[1]):
                    nearv |= np.linalg.norm(pts - V[:, j], axis=1) <= 3 * h
            elif lf["k"] == "poly":
                for vv in lf["verts"] + [p for hh in lf["holes"] for p in hh]:
                    nearv |= np.linalg.norm(pts - np.asarray(vv), axis=1) <= 3 * h
            elif lf["k"] == "mesh":
                # edges of the polyhedron (outwardness is two-valued there); points in the leaf's own frame
                from ..ref import poly3d
                v_ = vals
                for mp in dict_maps[id(lf)]:
                    v_ = G.pullback(mp, v_)
                nearv |= poly3d.edge_dist(*poly3d.SHAPES[lf["shape"]], v_[var]) <= 3 * h
        judged = on & (close <= 1) & ~nearv
        P = Bd.points_of(vals, [var])
        R = Bd.points_of(vals, fv)
        res["transitions"] += 1
        try:
            nrm = Dn.normal(P, R) if (fv and with_params) else Dn.normal(P)
        except Exception as e:
            if is_deliberate(e):
                res["rejected"] += 1
                return
            viol("C06|error|%s|normal|%s" % (type(e).__name__, top_sig(a)), "normal() on %s raised %s: %s" % (tag, exc_sig(e), str(e)[:120]))
            return
        nrm = torch.as_tensor(nrm).detach().double().numpy()
        if nrm.shape != (n, dim):
            viol("C06|shape|%s" % top_sig(a), "normal() on %s returned shape %s for %d points in %d-D" % (tag, nrm.shape, n, dim))
            return
        idx = np.where(judged)[0]
        res["evals"] += len(idx)
        if not len(idx):
            return
        sub = nrm[idx]
        fin = np.isfinite(sub).all(1)
        if not fin.all():
            i = idx[np.where(~fin)[0][0]]
            viol("C06|nonfinite|%s|%s" % (top_sig(a), flav), "%s: normal at the boundary point %s is %s (%d of %d judged points)" % (
                tag, pts[i].tolist(), nrm[i].tolist(), int((~fin).sum()), len(idx)))
            return
        ln = np.linalg.norm(sub, axis=1)
        if (np.abs(ln - 1) > 1e-4).any():
            i = idx[int(np.argmax(np.abs(ln - 1)))]
            viol("C06|not-unit|%s|%s" % (top_sig(a), flav), "%s: normal at %s has length %.6f" % (tag, pts[i].tolist(), np.linalg.norm(nrm[i])))
            return
        vout = dict(vals)
        vout[var] = pts + h * nrm
        vin = dict(vals)
        vin[var] = pts - h * nrm
        f_out = G.sdf(a, vout)[idx]
        f_in = G.sdf(a, vin)[idx]
        bad = (f_out <= 0) | (f_in > 0)
        if bad.any():
            i = idx[np.where(bad)[0][0]]
            viol("C06|not-outward|%s|%s" % (top_sig(a), flav),
                 "%s: normal %s at %s does not point out of the domain (%d of %d judged points; params %s)" % (
                     tag, np.round(nrm[i], 4).tolist(), np.round(pts[i], 5).tolist(), int(bad.sum()), len(idx),
                     {v: float(prm_vals[v][i, 0]) for v in prm_vals}))
            return
        # a NORMAL is perpendicular to the boundary: a small step along any tangent direction stays on the boundary
        # (exactly for straight pieces, to second order for circles and spheres)
        sub_n = nrm[idx]
        if dim == 2:
            tangents = [np.stack([-sub_n[:, 1], sub_n[:, 0]], 1)]
        elif dim == 3:
            ref = np.where(np.abs(sub_n[:, :1]) < 0.9, np.array([[1.0, 0.0, 0.0]]), np.array([[0.0, 1.0, 0.0]]))
            t1 = np.cross(sub_n, ref)
            t1 /= np.linalg.norm(t1, axis=1, keepdims=True)
            tangents = [t1, np.cross(sub_n, t1)]
        else:
            tangents = []
        for tg in tangents:
            for sgn in (1.0, -1.0):
                vt = dict(vals)
                moved = pts.copy()
                moved[idx] = pts[idx] + sgn * h * tg
                vt[var] = moved
                off = np.abs(G.sdf(a, vt)[idx])
                badt = off > 0.1 * h
                if badt.any():
                    i = idx[np.where(badt)[0][0]]
                    viol("C06|not-perpendicular|%s|%s" % (top_sig(a), flav),
                         "%s: normal %s at %s is not perpendicular to the boundary: a step of %.2g along its tangent ends %.2g away from the boundary (%d of %d judged points)" % (
                             tag, np.round(nrm[i], 4).tolist(), np.round(pts[i], 5).tolist(), h, float(off[np.where(badt)[0][0]]), int(badt.sum()), len(idx)))
                    return
        res["outcomes"].append("%s|%s" % (name, tag))

    plan = BOUNDS[tier]["samplers"]
    collected = []
    for th in thetas:
        prm1 = Bd.params_points({v: [x] for v, x in th.items()}) if th else Points.empty()
        for s in plan:
            st = "%s|%s|%s" % (name, sorted(th.items()), s)
            res["states"].append(st)
            try:
                if s.startswith("grid"):
                    with Seam():
                        S = Bd.build_tp(bexpr).sample_grid(n=int(s[4:]), params=prm1)
                else:
                    n = int(s.lstrip("netzro"))
                    mode = {"net": "NET", "zero": "ZERO", "one": "ONE"}[s.rstrip("0123456789")]
                    with Seam({0: mode} if mode != "NET" else {}):
                        S = Bd.build_tp(bexpr).sample_random_uniform(n=n, params=prm1)
            except Exception:
                continue          # sampling failures belong to C01
            pts = S.as_tensor.detach().double().numpy()
            if pts.ndim != 2 or not len(pts):
                continue
            prm_vals = {v: np.full((len(pts), 1), float(x)) for v, x in th.items()}
            judge(pts, prm_vals, "%s at %s" % (s, th))
            collected.append((pts[:24], {v: x[:24] for v, x in prm_vals.items()}))
            if fv and s == "grid8":
                # two-step history: evaluate the boundary at the parameter row, then ask the evaluated object
                try:
                    De = Bd.build_tp(bexpr)(**{v: torch.tensor(float(x)) for v, x in th.items()})
                except Exception as e:
                    if not is_deliberate(e):
                        viol("C06|error|%s|call|%s" % (type(e).__name__, top_sig(a)), "partial evaluation at %s raised %s" % (th, exc_sig(e)))
                    continue
                res["states"].append(st + "|evaluated")
                judge(pts, prm_vals, "evaluated at %s, then %s" % (th, s), Dn=De, with_params=False)
    # mixed batch: rows with different parameter values in one call
    if fv and len(collected) > 1:
        pts = np.concatenate([c[0] for c in collected])
        prm_vals = {v: np.concatenate([c[1][v] for c in collected]) for v in fv}
        perm = np.random.RandomState(3).permutation(len(pts))
        res["states"].append("%s|mixed" % name)
        judge(pts[perm], {v: x[perm] for v, x in prm_vals.items()}, "mixed batch of all parameter rows")
    res["samples"] = [{"boundary_of": G.show(a), "thetas": thetas[:3]}]
    return res
