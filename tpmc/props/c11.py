"""C11 -- samplers follow their named laws: uniform, even grid, Gaussian, LHS."""
import itertools
import math
import numpy as np
import torch
import torchphysics as tp

from ..kernel.seam import Seam, SeamBudget
from ..ref import geom as G
from ..ref import build as Bd
from ..ref import lattice as L
from .geo_common import *  # noqa

PROP = "C11"
LEVEL = "model_checking"
TECHNIQUE = ("exhaustive enumeration of the random source's answer lattice (complete Sobol net of size 2^m, all n!^d "
             "permutation scripts for LHS) pushed deterministically through the real samplers; cell fractions compared "
             "with exact measure shares from float64 quadrature of the reference membership (total-variation distance)")
RULE = ("every DEL expression x single parameter rows: net of 1024 (thorough 4096) seeds through sample_random_uniform, "
        "partition 8^D / 4^3 cells (boundaries: cells of reference boundary measure); grid n in {100,400} on 4^D cells; "
        "Gaussian by inverse-CDF net on 6x6 cells; LHS: all permutation scripts n<=4 x rand scripts {NET,ZERO,ONE,HALF}; "
        "distinct by (expression, row, law); non-trivial when >= 4 cells carry measure")
ASSUMPTIONS = ["torch's generator is uniform on [0,1) (the seam replaces it by an equidistributed net; what is decided is the image of that net)",
               "reference measure shares by midpoint quadrature of tpmc/ref/geom.py membership",
               "thresholds on the total-variation distance are calibrated on known-correct laws with a factor >= 2 margin and stated in BOUNDS"]
BOUNDS = {"quick": {"net": 4096, "tv_uniform": 0.05, "tv_boundary": 0.06, "tv_grid": 0.2, "tv_bgrid": 0.12, "tv_gauss": 0.06, "lhs_n": [1, 2, 3, 4]},
          "thorough": {"net": 8192, "tv_uniform": 0.04, "tv_boundary": 0.05, "tv_grid": 0.2, "tv_bgrid": 0.12, "tv_gauss": 0.05, "lhs_n": [1, 2, 3, 4]}}
ITEM_LIMIT = {"quick": 600, "thorough": 3600}


def items(tier):
    sol = L.solids(tier)
    out = []
    for a in L.dedupe(sol):
        out.append({"name": "uniform|" + G.show(a), "ast": a, "law": "uniform", "tier": tier})
        if not has_kind(a, ("translate", "rotate")) or True:
            out.append({"name": "uniform|" + G.show(L.B(a)), "ast": L.B(a), "law": "uniform", "tier": tier})
        out.append({"name": "grid|" + G.show(a), "ast": a, "law": "grid", "tier": tier})
        if not G.has_kind_prod(a):
            out.append({"name": "grid|" + G.show(L.B(a)), "ast": L.B(a), "law": "bgrid", "tier": tier})
        if a["k"] in ("union", "cut", "inter"):
            # the same law when the NUMBER of points comes from a density (the operands' point counts are then computed
            # from their volumes one by one)
            out.append({"name": "uniform-by-density|" + G.show(a), "ast": a, "law": "uniform", "bydensity": True, "tier": tier})
        if G.free_vars(a) and not has_kind(a, ("union", "cut", "inter")):
            out.append({"name": "grid-rows|" + G.show(a), "ast": a, "law": "gridrows", "tier": tier})
    # ONE random-sampling call with two parameter rows for unions whose volume ratio depends on the parameter
    for a in (L.U(L.C_GROW, L.C([3, 0], 0.5), disjoint=True), L.U(L.I_GROW, L.I_FAR, disjoint=True), L.U(L.SQ_GROW, L.FAR_C, disjoint=True)):
        out.append({"name": "uniform-rows|" + G.show(a), "ast": a, "law": "uniformrows", "tier": tier})
    for a in L.booleans2(tier) + L.booleans1(tier):
        if not G.free_vars(a):
            out.append({"name": "uniform-exactlen|" + G.show(L.B(a)), "ast": L.B(a), "law": "uniform", "exactlen": True, "tier": tier})
    for a in L.products(tier):
        if G.is_solid(a):
            out.append({"name": "uniform|" + G.show(a), "ast": a, "law": "uniform", "tier": tier})
    for a in [L.SQ, L.SLP, L.C1, L.C2, L.TSL, L.I2, L.Cut(L.SQ, L.IN_C, contained=True), L.C_GROW, L.N(L.C1, L.SQ), L.S1]:
        out.append({"name": "gauss|" + G.show(a), "ast": a, "law": "gauss", "tier": tier})
    for a in [L.I01, L.I2, L.SQ, L.RECT if False else L.P([-0.5, 0.2], [1.5, 0.2], [-0.5, 0.7]), L.I_MOVE, L.SQ_GROW,
              L.X(L.I(0, 1, var="y"), L.I01)]:
        out.append({"name": "lhs|" + G.show(a), "ast": a, "law": "lhs", "tier": tier})
    return out


# ------------------------------------------------------------------------------------------
def cell_index(pts, box, m):
    ext = box[:, 1] - box[:, 0]
    ext = np.where(ext <= 0, 1.0, ext)
    idx = np.floor((pts - box[:, 0]) / ext * m).astype(int)
    idx = np.clip(idx, 0, m - 1)
    flat = np.zeros(len(pts), dtype=int)
    for d in range(pts.shape[1]):
        flat = flat * m + idx[:, d]
    return flat


def solid_shares(a, th, box, m, sub, weight=None):
    """exact share of every cell of an m^D partition of box, by midpoint quadrature with sub^D points per cell"""
    D = len(box)
    tot = m * sub
    axes = [box[i, 0] + (np.arange(tot) + 0.5) / tot * (box[i, 1] - box[i, 0]) for i in range(D)]
    grid = np.stack(np.meshgrid(*axes, indexing="ij"), -1).reshape(-1, D)
    vals = split_space(a, grid)
    for v, x in th.items():
        vals[v] = np.full((len(grid), 1), x)
    w = (G.sdf(a, vals) <= 0).astype(np.float64)
    if weight is not None:
        w = w * weight(grid)
    ci = cell_index(grid, box, m)
    sh = np.bincount(ci, weights=w, minlength=m ** D)
    s = sh.sum()
    return sh / s if s > 0 else sh


def boundary_shares(a_solid, th, box, m):
    """share of the boundary measure of a same-space solid per cell: dense reference boundary points of every
    leaf (uniform in arclength, weighted by leaf boundary length) kept when on the composite boundary"""
    row = vals_of_theta(th, 1)
    D = len(box)
    w_all, p_all = [], []
    for lf, maps in G.leaves(a_solid):
        if lf["k"] == "point":
            continue
        M = 6000 if D < 3 else 12000
        s = (np.arange(M) + 0.5) / M
        p = G.boundary_points(lf, row, s)
        length = float(G.measure(L.B(lf), row, 1)[0])
        for mp in reversed(maps):
            p = G.pushforward(mp, p, {kk: np.broadcast_to(vv, (len(p), 1)) for kk, vv in row.items()})
        p_all.append(p)
        w_all.append(np.full(len(p), length / len(p)))
    p = np.concatenate(p_all)
    w = np.concatenate(w_all)
    vals = {G.space_vars(a_solid)[0][0]: p}
    for v, x in th.items():
        vals[v] = np.full((len(p), 1), x)
    on = G.near_boundary(a_solid, vals, 1e-6 * scale_of(box))
    w = w * on
    ci = cell_index(p, box, m)
    sh = np.bincount(ci, weights=w, minlength=m ** D)
    boundary_shares.total = float(sh.sum())
    return sh / sh.sum() if sh.sum() > 0 else sh


def tv(lib_pts, box, m, shares):
    ci = cell_index(lib_pts, box, m)
    emp = np.bincount(ci, minlength=len(shares)) / max(len(lib_pts), 1)
    return 0.5 * float(np.abs(emp - shares).sum()), emp


def run_item(item):
    a, law, tier = item["ast"], item["law"], item["tier"]
    name = item["name"]
    bnd = BOUNDS[tier]
    res = {"evals": 0, "transitions": 0, "states": [], "outcomes": [], "violations": [], "rejected": 0, "samples": [],
           "extra": {}}
    seen = set()

    def viol(key, what, detail=None):
        if key in seen:
            return
        seen.add(key)
        res["violations"].append({"key": key, "what": "%s: %s" % (name, what), "detail": detail or {"ast": a, "law": law}})

    fv = sorted(G.free_vars(a))
    try:
        Bd.build_tp(a)
    except Exception as e:
        if is_deliberate(e):
            res["rejected"] += 1
        return res
    order = space_order(a)
    D = sum(d for _, d in G.space_vars(a))
    thetas = [th for th in theta_rows(fv) if L.positive_measure(a, th)]
    if tier == "quick":
        thetas = thetas[:2]
    tvs = []
    for th in thetas:
        prm1 = Bd.params_points({v: [x] for v, x in th.items()}) if th else Points.empty()
        rbox = G.ref_box(a, vals_of_theta(th, 1))[0]
        # partition box: slightly and asymmetrically inflated by irrational-ish factors, so that axis-parallel
        # edges of the shapes never coincide with cell borders (float32 rounding would flip the cell there)
        _ext = rbox[:, 1] - rbox[:, 0]
        pbox = np.stack([rbox[:, 0] - 0.0137 * _ext, rbox[:, 1] + 0.0291 * _ext], 1)
        st = "%s|%s" % (name, sorted(th.items()))
        res["states"].append(st)

        def sample(fn, script=None):
            res["transitions"] += 1
            try:
                with Seam(script or {}, budget=20000, elem_budget=50_000_000):
                    S = fn()
                return S
            except Exception as e:
                if not is_deliberate(e) and not isinstance(e, SeamBudget):
                    res["extra"]["sampling_errors_left_to_C01"] = res["extra"].get("sampling_errors_left_to_C01", 0) + 1
                else:
                    res["rejected"] += 1
                return None

        if law == "uniform":
            N = bnd["net"] if D < 3 else bnd["net"] // 2
            if item.get("exactlen"):
                # the exact length of the Boolean boundary is supplied through set_volume(): the estimate
                # |dA|+|dB| no longer enters, and the sampler is expected to be uniform in arclength
                m0 = {1: 8, 2: 4}.get(D, 3)
                sh0 = boundary_shares(a["a"], th, pbox, m0)
                true_len = boundary_shares.total

                def mk():
                    Dx = Bd.build_tp(a)
                    Dx.set_volume(true_len)
                    return Dx.sample_random_uniform(n=N, params=prm1)
                S = sample(mk)
            elif item.get("bydensity"):
                def mk_d():
                    Dx = Bd.build_tp(a)
                    v = float(torch.as_tensor(Dx.volume(prm1) if th else Dx.volume()).reshape(-1)[0])
                    return Dx.sample_random_uniform(d=N / v, params=prm1)
                S = sample(mk_d)
            else:
                S = sample(lambda: Bd.build_tp(a).sample_random_uniform(n=N, params=prm1))
            if S is None or len(S) == 0 or S.as_tensor.dim() != 2:
                continue
            vals = Bd.to_vals(S)
            if not all(v in vals for v in order):
                continue
            pts = np.concatenate([vals[v] for v in order], 1)
            res["evals"] += len(pts)
            m = {1: 8, 2: 4}.get(D, 3)       # coarse cells: sampling noise of an iid sample would be ~0.025
            if G.is_solid(a):
                shares = solid_shares(a, th, pbox, m, sub=24 if D <= 2 else 14)
                thr = bnd["tv_uniform"]
                kind = "solid"
            elif a["k"] == "boundary" and not G.has_kind_prod(a):
                shares = boundary_shares(a["a"], th, pbox, m)
                thr = 0.02 if item.get("exactlen") else bnd["tv_boundary"]     # exact-length sampling is uniform to ~0.002
                kind = "boundary"
            else:
                continue
            if (shares > 0).sum() < 2:
                continue
            # never below 1.5 x the sampling noise an iid sample of this size would show on this many cells
            thr = max(thr, 0.6 * math.sqrt(float((shares > 0).sum()) / len(pts)))
            d, emp = tv(pts, pbox, m, shares)
            tvs.append(round(d, 4))
            res.setdefault("tvlist", []).append((round(d, 4), name, str(th)))
            if d > thr:
                worst = int(np.argmax(np.abs(emp - shares)))
                sig = _law_sig(a) + ("-exact-length" if item.get("exactlen") else "") + ("|by-density" if item.get("bydensity") else "")
                if sig == "boolean-boundary" and G.depth(a["a"]) >= 2:
                    sig = "nested-boolean-boundary"     # operand boundary lengths are themselves estimates
                key = "C11|nonuniform|%s" % sig if sig in FAMILIES else "C11|nonuniform|%s|%s" % (kind, sig)
                if d > SEVERE:
                    key += "|severe"
                viol(key, "random-uniform sampling at %s: total-variation distance %.3f between the cell fractions of the pushed-forward "
                     "net (n=%d) and the measure shares exceeds %.3f (worst cell %d: %.4f sampled vs %.4f of the measure)" % (
                         th, d, len(pts), thr, worst, emp[worst], shares[worst]))
            elif (shares > 0).sum() >= 4:
                res["outcomes"].append(st)
        elif law == "grid":
            if not G.is_solid(a):
                continue
            for n in (100, 400):
                if D == 3 and n == 100:
                    continue
                S = sample(lambda: Bd.build_tp(a).sample_grid(n=n, params=prm1))
                if S is None or len(S) == 0 or S.as_tensor.dim() != 2:
                    continue
                pts = np.concatenate([Bd.to_vals(S)[v] for v in order], 1)
                res["evals"] += len(pts)
                m = 4 if D <= 2 else 2
                shares = solid_shares(a, th, pbox, m, sub=24 if D <= 2 else 16)
                d, emp = tv(pts, pbox, m, shares)
                tvs.append(round(d, 4))
                res.setdefault("tvlist", []).append((round(d, 4), name + "|n=%d" % n, str(th)))
                if d > bnd["tv_grid"]:
                    worst = int(np.argmax(np.abs(emp - shares)))
                    viol("C11|grid-uneven|%s" % _law_sig(a), "sample_grid(n=%d) at %s: total-variation distance %.3f between cell fractions and measure "
                         "shares on the %d^%d partition exceeds %.3f (worst cell %d: %.4f of the points vs %.4f of the measure)" % (
                             n, th, d, m, D, bnd["tv_grid"], worst, emp[worst], shares[worst]))
                elif (shares > 0).sum() >= 4:
                    res["outcomes"].append(st + "|n=%d" % n)
        elif law == "bgrid":
            # grids on boundaries: evenly spread with respect to the boundary measure
            for n in (100, 400):
                S = sample(lambda: Bd.build_tp(a).sample_grid(n=n, params=prm1))
                if S is None or len(S) == 0 or S.as_tensor.dim() != 2:
                    continue
                pts = np.concatenate([Bd.to_vals(S)[v] for v in order], 1)
                res["evals"] += len(pts)
                m = {1: 8, 2: 4}.get(D, 2)
                shares = boundary_shares(a["a"], th, pbox, m)
                if (shares > 0).sum() < 2:
                    continue
                d, emp = tv(pts, pbox, m, shares)
                tvs.append(round(d, 4))
                res.setdefault("tvlist", []).append((round(d, 4), name + "|n=%d" % n, str(th)))
                if d > bnd["tv_bgrid"]:
                    worst = int(np.argmax(np.abs(emp - shares)))
                    fam = _law_sig(a)
                    if fam == "boolean-boundary" and G.depth(a["a"]) >= 2:
                        fam = "nested-boolean-boundary"      # an operand is itself a Boolean result: its boundary length is an estimate
                    viol("C11|boundary-grid-uneven|%s" % fam, "sample_grid(n=%d) at %s: total-variation distance %.3f between cell fractions and boundary-measure "
                         "shares on the %d^%d partition exceeds %.3f (worst cell %d: %.4f of the points vs %.4f of the measure)" % (
                             n, th, d, m, D, bnd["tv_bgrid"], worst, emp[worst], shares[worst]))
                elif (shares > 0).sum() >= 4:
                    res["outcomes"].append(st + "|n=%d" % n)
        elif law == "uniformrows":
            if len(thetas) < 2 or th is not thetas[0]:
                continue
            tha, thb = thetas[0], thetas[-1]
            prm2 = Bd.params_points({v: [tha[v], thb[v]] for v in tha})
            N2 = bnd["net"] // 2
            S = sample(lambda: Bd.build_tp(a).sample_random_uniform(n=N2, params=prm2))
            if S is None or len(S) != 2 * N2 or S.as_tensor.dim() != 2:
                continue
            allp = np.concatenate([Bd.to_vals(S)[v] for v in order], 1)
            for ri, thr_ in enumerate((tha, thb)):
                pts = allp[ri * N2:(ri + 1) * N2]
                rb = G.ref_box(a, vals_of_theta(thr_, 1))[0]
                ex = rb[:, 1] - rb[:, 0]
                pb = np.stack([rb[:, 0] - 0.0137 * ex, rb[:, 1] + 0.0291 * ex], 1)
                m = {1: 8, 2: 4}.get(D, 3)
                shares = solid_shares(a, thr_, pb, m, sub=24 if D <= 2 else 14)
                thr = max(bnd["tv_uniform"], 0.6 * math.sqrt(float((shares > 0).sum()) / len(pts)))
                d, emp = tv(pts, pb, m, shares)
                res["evals"] += len(pts)
                tvs.append(round(d, 4))
                res.setdefault("tvlist", []).append((round(d, 4), name + "|row%d" % ri, str(thr_)))
                if d > thr:
                    worst = int(np.argmax(np.abs(emp - shares)))
                    viol("C11|nonuniform|rows|%s" % _law_sig(a), "sample_random_uniform(n=%d) called with the two parameter rows %s and %s: the block of row %d has total-variation "
                         "distance %.3f (> %.3f) to the measure shares of its own domain (worst cell %d: %.4f sampled vs %.4f of the measure)" % (
                             N2, tha, thb, ri, d, thr, worst, emp[worst], shares[worst]))
                elif (shares > 0).sum() >= 2:
                    res["outcomes"].append(st + "|row%d" % ri)
        elif law == "gridrows":
            # ONE call of domain.sample_grid with two parameter rows: the block of every row is an even grid of ITS domain
            if len(thetas) < 2 or th is not thetas[0]:
                continue
            tha, thb = thetas[0], thetas[-1]
            prm2 = Bd.params_points({v: [tha[v], thb[v]] for v in tha})
            n = 100 if D < 3 else 200
            S = sample(lambda: Bd.build_tp(a).sample_grid(n=n, params=prm2))
            if S is None or len(S) != 2 * n or S.as_tensor.dim() != 2:
                continue        # refusals / other counts are C01's and C02's business
            allp = np.concatenate([Bd.to_vals(S)[v] for v in order], 1)
            for ri, thr_ in enumerate((tha, thb)):
                pts = allp[ri * n:(ri + 1) * n]
                rb = G.ref_box(a, vals_of_theta(thr_, 1))[0]
                ex = rb[:, 1] - rb[:, 0]
                pb = np.stack([rb[:, 0] - 0.0137 * ex, rb[:, 1] + 0.0291 * ex], 1)
                m = 4 if D <= 2 else 2
                shares = solid_shares(a, thr_, pb, m, sub=24 if D <= 2 else 16)
                d, emp = tv(pts, pb, m, shares)
                res["evals"] += len(pts)
                tvs.append(round(d, 4))
                res.setdefault("tvlist", []).append((round(d, 4), name + "|row%d" % ri, str(thr_)))
                if d > bnd["tv_grid"]:
                    worst = int(np.argmax(np.abs(emp - shares)))
                    viol("C11|grid-uneven|rows|%s" % _law_sig(a), "sample_grid(n=%d) called with the two parameter rows %s and %s: the block of row %d has total-variation "
                         "distance %.3f to the measure shares of its own domain (worst cell %d: %.4f of the points vs %.4f of the measure)" % (
                             n, tha, thb, ri, d, worst, emp[worst], shares[worst]))
                elif (shares > 0).sum() >= 4:
                    res["outcomes"].append(st + "|row%d" % ri)
        elif law == "gauss":
            ctr = 0.5 * (rbox[:, 0] + rbox[:, 1]) + 0.15 * (rbox[:, 1] - rbox[:, 0])
            std = float(0.3 * (rbox[:, 1] - rbox[:, 0]).max())
            N = bnd["net"]
            smp = tp.samplers.GaussianSampler(Bd.build_tp(a), n_points=N, mean=[float(c) for c in ctr], std=std)
            S = sample(lambda: smp.sample_points(prm1))
            if S is None or len(S) == 0:
                continue
            pts = np.concatenate([Bd.to_vals(S)[v] for v in order], 1)
            res["evals"] += len(pts)
            m = 6 if D <= 2 else 3

            def w(grid, ctr=ctr, std=std):
                return np.exp(-0.5 * (((grid - ctr) / std) ** 2).sum(1))
            shares = solid_shares(a, th, pbox, m, sub=16 if D <= 2 else 12, weight=w)
            d, emp = tv(pts, pbox, m, shares)
            tvs.append(round(d, 4))
            res.setdefault("tvlist", []).append((round(d, 4), name, str(th)))
            if d > bnd["tv_gauss"]:
                worst = int(np.argmax(np.abs(emp - shares)))
                viol("C11|not-gaussian|%s" % _law_sig(a), "GaussianSampler(mean=%s, std=%.3f) at %s: total-variation distance %.3f to the normal law "
                     "conditioned on the domain exceeds %.3f (worst cell %d: %.4f vs %.4f)" % (
                         np.round(ctr, 3).tolist(), std, th, d, bnd["tv_gauss"], worst, emp[worst], shares[worst]))
            else:
                res["outcomes"].append(st)
        elif law == "lhs":
            for n in bnd["lhs_n"]:
                perms = list(itertools.permutations(range(n)))
                for combo in itertools.product(perms, repeat=D):
                    for rmode in ("NET", "ZERO", "ONE", "HALF"):
                        script = {}
                        for ax in range(D):
                            if rmode != "NET":
                                script[2 * ax] = rmode
                            script[2 * ax + 1] = ("PERM", list(combo[ax]))
                        smp = tp.samplers.LHSSampler(Bd.build_tp(a), n_points=n)
                        S = sample(lambda: smp.sample_points(prm1), script)
                        if S is None:
                            continue
                        res["evals"] += 1
                        pts = np.concatenate([Bd.to_vals(S)[v] for v in order], 1)
                        if len(pts) != n:
                            viol("C11|lhs-count|%s" % _law_sig(a), "LHS n=%d at %s returned %d points (script %s)" % (n, th, len(pts), script))
                            continue
                        for ax in range(D):
                            u = (pts[:, ax] - rbox[ax, 0]) / (rbox[ax, 1] - rbox[ax, 0]) * n
                            lo = np.clip(np.floor(u - 1e-4).astype(int), 0, n - 1)     # a point on a slab edge may
                            hi = np.clip(np.floor(u + 1e-4).astype(int), 0, n - 1)     # be counted to either side
                            ok = any(sorted(ch) == list(range(n)) for ch in itertools.product(*[sorted({l, h}) for l, h in zip(lo, hi)]))
                            if not ok or (u < -1e-4).any() or (u > n + 1e-4).any():
                                viol("C11|lhs-slabs|%s" % _law_sig(a), "LHS n=%d at %s: axis %d slab coordinates %s do not hit each of the %d slabs once (permutations %s, rand %s)" % (
                                    n, th, ax, np.round(u, 4).tolist(), n, combo, rmode))
                                break
                        else:
                            res["outcomes"].append("%s|n=%d|%s|%s" % (st, n, combo, rmode))
    if law == "lhs" and fv and len(thetas) > 1:
        # all parameter rows in ONE call: block i must be a Latin hypercube of row i's own box
        prm = Bd.params_points({v: [th[v] for th in thetas] for v in fv})
        for n in (2, 3, 4):
            for pm in ("ID", "REV", "ROT"):
                script = {}
                for r in range(len(thetas)):
                    for ax in range(D):
                        script[(r * D + ax) * 2 + 1] = pm
                smp = tp.samplers.LHSSampler(Bd.build_tp(a), n_points=n)
                res["transitions"] += 1
                try:
                    with Seam(script):
                        S = smp.sample_points(prm)
                except Exception as e:
                    if not is_deliberate(e):
                        res["extra"]["sampling_errors_left_to_C01"] = res["extra"].get("sampling_errors_left_to_C01", 0) + 1
                    continue
                res["evals"] += 1
                st = "%s|all-rows|n=%d|%s" % (name, n, pm)
                res["states"].append(st)
                pts = np.concatenate([Bd.to_vals(S)[v] for v in order], 1)
                if len(pts) != n * len(thetas):
                    continue
                good = True
                for r, th in enumerate(thetas):
                    rb = G.ref_box(a, vals_of_theta(th, 1))[0]
                    blk = pts[r * n:(r + 1) * n]
                    for ax in range(D):
                        u = (blk[:, ax] - rb[ax, 0]) / (rb[ax, 1] - rb[ax, 0]) * n
                        lo = np.clip(np.floor(u - 1e-4).astype(int), 0, n - 1)
                        hi = np.clip(np.floor(u + 1e-4).astype(int), 0, n - 1)
                        ok = any(sorted(ch) == list(range(n)) for ch in itertools.product(*[sorted({l, h}) for l, h in zip(lo, hi)]))
                        if not ok or (u < -1e-4).any() or (u > n + 1e-4).any():
                            good = False
                            viol("C11|lhs-slabs-multirow|%s" % _law_sig(a), "LHS n=%d with %d parameter rows in one call: block of row %s, axis %d: slab coordinates %s do not hit each slab of that row's box once" % (
                                n, len(thetas), th, ax, np.round(u, 3).tolist()))
                            break
                    if not good:
                        break
                if good:
                    res["outcomes"].append(st)
    res["extra"]["tv_max_x1e4"] = 0
    res["samples"] = [{"case": name, "tv": tvs[:6]}]
    res["tvs"] = tvs
    return res


def _overlapping_union(a):
    if a["k"] == "union" and not a["disjoint"]:
        return True
    return any(_overlapping_union(v) for v in a.values() if isinstance(v, dict))


def _closed_form(a):
    """does the library know the exact measure of this expression (mirrors the statement of C10, no evaluation)"""
    k = a["k"]
    if k in G.PRIMS:
        return True
    if k == "union":
        return a["disjoint"] and _closed_form(a["a"]) and _closed_form(a["b"])
    if k == "cut":
        return a["contained"] and _closed_form(a["a"]) and _closed_form(a["b"])
    if k == "inter":
        return False
    if k == "prod":
        return _closed_form(a["a"]) and _closed_form(a["b"])
    return _closed_form(a["a"])


def _estimated_union(a):
    """a union (anywhere) one of whose operands has no exact volume (intersection, non-contained cut, overlapping union):
    the library then samples with its documented volume ESTIMATE unless set_volume() is used"""
    if a["k"] == "union" and not (_closed_form(a["a"]) and _closed_form(a["b"])):
        return True
    return any(_estimated_union(v) for v in a.values() if isinstance(v, dict))


def _law_sig(a):
    """family of the sampling algorithm behind an expression (known-biased families get one key each)"""
    k = a["k"]
    if k == "boundary":
        inner = a["a"]
        while inner["k"] in ("translate", "rotate"):
            inner = inner["a"]
        if inner["k"] in ("union", "cut", "inter"):
            return "boolean-boundary"
        return "boundary/" + _law_sig(a["a"])
    if _estimated_union(a):
        return "union-of-estimated-volumes"
    if _overlapping_union(a):
        # inside a product the union is sampled with ONE point per row (each row has its own partner point), where the
        # overlap cannot be estimated from the row's own candidates
        return "overlapping-union-in-product" if G.has_kind_prod(a) else "overlapping-union"
    if has_kind(a, ("poly",)):
        return "concave-polygon"
    return "%s/%s" % (top_sig(a), "+".join(sorted(leaf_flavors(a))))


FAMILIES = ("boolean-boundary", "nested-boolean-boundary", "overlapping-union", "overlapping-union-in-product", "concave-polygon", "boolean-boundary-exact-length", "union-of-estimated-volumes")
SEVERE = 0.6     # a known-biased family deviating more than this (grossly broken, not merely biased) gets its own key


def finish(results, tier):
    import os
    if os.environ.get("TPMC_C11_DUMP"):
        allt = sorted(t for r in results for t in r.get("tvlist", []))
        for t in allt:
            print("TV %.4f %s %s" % tuple(t))
    tvs = [t for r in results for t in r.get("tvs", [])]
    return {"tv_distances_observed": len(tvs), "tv_max": max(tvs) if tvs else 0.0,
            "tv_median": float(np.median(tvs)) if tvs else 0.0}
