"""C12 -- Points and Space behave as a table with named column groups."""
import itertools
import numpy as np
import torch
from torchphysics.problem.spaces import Points, Space

from ..kernel import explorer

PROP = "C12"
LEVEL = "model_checking"
TECHNIQUE = ("explicit-state breadth-first search over operation histories of Points (index expressions, join, concatenation, "
             "repeat, unsqueeze, assignment, arithmetic) replayed on the real class and on a reference table model "
             "(ordered named column groups over cells that name their origin); Space algebra enumerated exhaustively")
RULE = ("initial tables: every ordered selection of <= 3 variables of {x:1,y:2,t:1,u:3} x batch shapes {(1,),(3,),(2,2)}, cells "
        "100*row+column; BFS over all histories up to the tier's depth over the operation alphabet; states canonicalised as "
        "(ordered space, cell tuple); distinct states = distinct tables reached")
ASSUMPTIONS = ["reference table model in this file (numpy, written from the documented semantics)",
               "operations the table model rejects (unknown names, overlapping joins, shape mismatches) must raise in the library"]
BOUNDS = {"quick": {"depth": 2, "max_vars": 3}, "thorough": {"depth": 3, "max_vars": 3}}
ITEM_LIMIT = {"quick": 900, "thorough": 3600}

VARS = {"x": 1, "y": 2, "t": 1, "u": 3}
VARS2 = {"x": 2, "y": 1, "t": 3, "u": 1}
ROWS = [0, -1, ("s", 1, None, None), ("s", None, 2, None), ("s", None, None, 2)]


class Reject(Exception):
    pass


class Table:
    def __init__(self, space, data):
        self.space = list(space)          # [(name, dim)]
        self.data = np.asarray(data, dtype=np.float64)

    def cols(self, name):
        c = 0
        for n, d in self.space:
            if n == name:
                return list(range(c, c + d))
            c += d
        raise Reject("no variable %s" % name)

    def canon(self):
        return (tuple(self.space), self.data.shape, tuple(np.round(self.data, 6).reshape(-1).tolist()))


def mk(space, shape, offset=0):
    D = sum(d for _, d in space)
    n = int(np.prod(shape))
    rows = np.arange(n).reshape(n, 1) * 100 + np.arange(D).reshape(1, D) + offset
    return Table(space, rows.reshape(tuple(shape) + (D,)))


def to_real(t):
    return Points(torch.tensor(t.data, dtype=torch.float32), Space(dict(t.space)))


def pyrow(r):
    if isinstance(r, (list, tuple)) and r and r[0] == "s":
        return slice(r[1], r[2], r[3])
    return r


# ------------------------------------------------------------------------- operations -----
def enabled(t):
    names = [n for n, _ in t.space]
    ops = [("roundtrip",), ("eq_self",), ("eq_reordered",), ("len",), ("pow",), ("iter",), ("join_empty",), ("mask_fullshape",)]
    for r in ROWS:
        ops.append(("rows", r))
        for n in names[:3]:
            ops.append(("rows_name", r, n))
    for n in names:
        ops.append(("ellipsis_name", n))
    for k in (1, 2):
        for sub in itertools.permutations(names, k):
            if k == 2 and len(names) > 3:
                continue
            ops.append(("rows_names", ("s", None, None, None), list(sub)))
    if len(names) >= 2:
        ops.append(("space_slice", names[0], names[1]))
        ops.append(("space_slice", names[1], None))
        ops.append(("space_step", 2))
        ops.append(("space_step", -1))
    n0 = t.data.shape[0]
    mask = [(i % 2 == 0) for i in range(n0)]
    for kind in ("tensor", "list", "ndarray"):
        ops.append(("mask", kind, mask))
        ops.append(("index", kind, [n0 - 1, 0] if n0 > 1 else [0]))
    ops += [("join_w",), ("join_overlap",), ("joined_w",), ("or_self",), ("or_other",), ("or_wrongspace",), ("repeat", 2),
            ("unsqueeze", 0), ("unsqueeze", 1), ("unsqueeze", -1), ("unsqueeze", -2), ("unsqueeze", -3),
            ("set_rows", ("s", None, 1, None)), ("set_name", names[0]), ("set_name", names[-1]),
            ("arith", "+"), ("arith", "-"), ("arith", "*"), ("arith", "/"), ("arith_wrongspace",), ("coords_names",)]
    return ops


def _other(t, offset):
    return Table(t.space, t.data * 0 + (np.arange(t.data.size).reshape(t.data.shape) + offset))


def apply_model(t, op):
    """-> (new table or None when the op is an observation, observation value)"""
    k = op[0]
    nb = t.data.ndim - 1
    if k in ("roundtrip", "eq_self", "eq_reordered", "len", "coords_names", "pow", "iter", "join_empty", "mask_fullshape"):
        return None, None
    if k == "rows":
        d = t.data[pyrow(op[1])]
        if d.ndim == 1:
            d = d[None]
        return Table(t.space, d), None
    if k in ("rows_name", "rows_names", "ellipsis_name"):
        if k != "ellipsis_name" and nb != 1:
            raise Reject("index with one row expression needs one batch axis")
        names = [op[2]] if k == "rows_name" else (op[2] if k == "rows_names" else [op[1]])
        cols = []
        for n in names:
            cols += t.cols(n)
        sp = [(n, dict(t.space)[n]) for n in names]
        d = t.data[..., cols] if k == "ellipsis_name" else t.data[pyrow(op[1])][..., cols]
        if d.ndim == 1:
            d = d[None]
        return Table(sp, d), None
    if k == "space_slice":
        if nb != 1:
            raise Reject("needs one batch axis")
        names = [n for n, _ in t.space]
        a = names.index(op[1])
        b = names.index(op[2]) if op[2] is not None else None
        sel = names[a:b]
        cols = []
        for n in sel:
            cols += t.cols(n)
        return Table([(n, dict(t.space)[n]) for n in sel], t.data[:, cols]), None
    if k == "space_step":
        if nb != 1:
            # with more batch axes the second index addresses the second BATCH axis (torch knows no negative steps)
            if op[1] < 0:
                raise Reject("negative step on a batch axis")
            d = t.data[:, ::op[1]]
            return Table(t.space, np.ascontiguousarray(d)), None
        sel = [n for n, _ in t.space][::op[1]]
        cols = []
        for n in sel:
            cols += t.cols(n)
        return Table([(n, dict(t.space)[n]) for n in sel], t.data[:, cols]), None
    if k == "mask":
        m = np.array(op[2], dtype=bool)
        d = t.data[m]
        return Table(t.space, d), None
    if k == "index":
        d = t.data[np.array(op[2])]
        return Table(t.space, d), None
    if k in ("join_w", "joined_w"):
        if "w" in [n for n, _ in t.space]:
            raise Reject("join with overlapping variable names")
        w = mk([("w", 2)], t.data.shape[:-1], offset=10000)
        return Table(t.space + w.space, np.concatenate([t.data, w.data], -1)), None
    if k == "join_overlap":
        raise Reject("join with overlapping variable names")
    if k == "or_self":
        return Table(t.space, np.concatenate([t.data, t.data], 0)), None
    if k == "or_other":
        o = _other(t, 5000)
        return Table(t.space, np.concatenate([t.data, o.data], 0)), None
    if k in ("or_wrongspace", "arith_wrongspace"):
        raise Reject("different spaces")
    if k == "repeat":
        reps = (op[1],) + (1,) * (t.data.ndim - 1)
        return Table(t.space, np.tile(t.data, reps)), None
    if k == "unsqueeze":
        dim = op[1]
        if dim >= t.data.ndim:
            raise Reject("dim out of range")
        if dim < 0:
            dim = t.data.ndim + dim          # new axis goes before the last batch axis' successor, never after the columns
            if dim < 0:
                raise Reject("dim out of range")
        return Table(t.space, np.expand_dims(t.data, dim)), None
    if k == "set_rows":
        d = t.data.copy()
        sl = pyrow(op[1])
        d[sl] = d[sl] * 0 + 7.0
        return Table(t.space, d), None
    if k == "set_name":
        d = t.data.copy()
        cols = t.cols(op[1])
        d[..., cols] = -d[..., cols] - 1.0
        return Table(t.space, d), None
    if k == "arith":
        o = _other(t, 3).data + 1.0
        with np.errstate(all="ignore"):
            d = {"+": t.data + o, "-": t.data - o, "*": t.data * o, "/": t.data / o}[op[1]]
        return Table(t.space, d.astype(np.float32).astype(np.float64)), None
    raise ValueError(op)


def conv(kind, val, dtype):
    if kind == "tensor":
        return torch.tensor(val, dtype=dtype)
    if kind == "ndarray":
        return np.array(val, dtype=bool if dtype == torch.bool else np.int64)
    return list(val)


def apply_real(p, t, op):
    """apply to the real Points (t = model state BEFORE the op, used to build operands)"""
    k = op[0]
    if k == "rows":
        return p[pyrow(op[1])]
    if k == "rows_name":
        return p[pyrow(op[1]), op[2]]
    if k == "rows_names":
        return p[pyrow(op[1]), list(op[2])]
    if k == "ellipsis_name":
        return p[..., op[1]]
    if k == "space_slice":
        return p[:, op[1]:op[2]]
    if k == "space_step":
        return p[:, ::op[1]]
    if k == "mask":
        return p[conv(op[1], op[2], torch.bool),]
    if k == "index":
        return p[conv(op[1], op[2], torch.int64),]
    if k == "join_w":
        return p.join(to_real(mk([("w", 2)], t.data.shape[:-1], offset=10000)))
    if k == "joined_w":
        return Points.joined(p, to_real(mk([("w", 2)], t.data.shape[:-1], offset=10000)))
    if k == "join_overlap":
        return p.join(to_real(mk([t.space[0]], t.data.shape[:-1], offset=10000)))
    if k == "or_self":
        return p | p
    if k == "or_other":
        return p | to_real(_other(t, 5000))
    if k == "or_wrongspace":
        return p | to_real(mk([("zz", sum(d for _, d in t.space))], t.data.shape[:-1]))
    if k == "arith_wrongspace":
        return p + to_real(mk([("zz", sum(d for _, d in t.space))], t.data.shape[:-1]))
    if k == "repeat":
        return p.repeat(op[1])
    if k == "unsqueeze":
        return p.unsqueeze(op[1])
    if k == "set_rows":
        sl = pyrow(op[1])
        src = Points(p.as_tensor[sl].clone() * 0 + 7.0, p.space)
        p[sl] = src
        return p
    if k == "set_name":
        cols = t.cols(op[1])
        src = Points(-p.as_tensor[..., cols].clone() - 1.0, Space({op[1]: dict(t.space)[op[1]]}))
        if t.data.ndim == 2:
            p[:, op[1]] = src
        else:
            p[..., op[1]] = src
        return p
    if k == "arith":
        o = to_real(Table(t.space, _other(t, 3).data + 1.0))
        return {"+": p + o, "-": p - o, "*": p * o, "/": p / o}[op[1]]
    raise ValueError(op)


def same(p, t):
    if list(p.space.items()) != list(t.space):
        return "space %s, model %s" % (list(p.space.items()), t.space)
    a = p.as_tensor.detach().double().numpy()
    if a.shape != t.data.shape:
        return "tensor shape %s, model %s" % (a.shape, t.data.shape)
    if not np.allclose(a, t.data, rtol=1e-6, atol=1e-6, equal_nan=True):
        idx = np.argwhere(~np.isclose(a, t.data, rtol=1e-6, atol=1e-6, equal_nan=True))[0]
        return "cell %s is %s, model %s" % (tuple(idx), a[tuple(idx)], t.data[tuple(idx)])
    return None


def observe(p, t, op):
    """observations that do not change the state: returns list of (key, what)"""
    k = op[0]
    out = []
    if k == "roundtrip":
        c = p.coordinates
        if list(c.keys()) != [n for n, _ in t.space]:
            out.append(("C12|coordinates-order", "coordinates keys %s, space %s" % (list(c.keys()), t.space)))
        for n, d in t.space:
            exp = t.data[..., t.cols(n)]
            if c[n].shape[-1] != d or not np.allclose(c[n].double().numpy(), exp):
                out.append(("C12|coordinates-values", "coordinates[%s] differ from the table columns" % n))
        q = Points.from_coordinates({n: v.clone() for n, v in c.items()})
        bad = same(q, t)
        if bad:
            out.append(("C12|roundtrip", "from_coordinates(coordinates) differs: %s" % bad))
        if not (q == p):
            out.append(("C12|roundtrip-eq", "from_coordinates(p.coordinates) != p"))
    elif k == "eq_self":
        if not (p == Points(p.as_tensor.clone(), Space(dict(t.space)))):
            out.append(("C12|eq", "p != copy of p"))
    elif k == "eq_reordered":
        if len(t.space) >= 2:
            names = [n for n, _ in t.space][::-1]
            q = p[..., names] if t.data.ndim > 2 else p[:, names]
            if q == p:
                out.append(("C12|eq-order-insensitive", "p == p with reordered variables"))
            # reading the variables back by name must give the same columns
            for n, d in t.space:
                if not np.allclose(q.coordinates[n].double().numpy(), t.data[..., t.cols(n)]):
                    out.append(("C12|reorder-values", "after reordering, variable %s has other values" % n))
    elif k == "len":
        if len(p) != int(np.prod(t.data.shape[:-1])) or tuple(p.shape) != t.data.shape[:-1] or p.dim != t.data.shape[-1]:
            out.append(("C12|len", "len/shape/dim = %s/%s/%s for table shape %s" % (len(p), tuple(p.shape), p.dim, t.data.shape)))
    elif k == "pow":
        two = Points(torch.full_like(p.as_tensor, 2.0), p.space)
        try:
            q = p ** two
            if list(q.space.items()) != list(t.space) or not np.allclose(q.as_tensor.double().numpy(), t.data ** 2, rtol=1e-5, atol=1e-6):
                out.append(("C12|pow", "p ** 2 differs from the squared table"))
        except Exception as e:
            out.append(("C12|pow", "p ** Points(2) raised %s" % type(e).__name__))
    elif k == "iter":
        rows = list(iter(p))
        n0 = t.data.shape[0]
        if len(rows) != n0:
            out.append(("C12|iter", "iteration yields %d items for %d rows" % (len(rows), n0)))
        else:
            for i, r in enumerate(rows):
                exp = t.data[i]
                got = r.as_tensor.double().numpy() if isinstance(r, Points) else None
                if got is None or list(r.space.items()) != list(t.space) or got.reshape(-1).shape != exp.reshape(-1).shape or \
                        not np.allclose(got.reshape(-1), exp.reshape(-1)):
                    out.append(("C12|iter", "item %d of the iteration is not row %d of the table" % (i, i)))
                    break
    elif k == "join_empty":
        for q, nm in ((p.join(Points.empty()), "p.join(empty)"), (Points.empty().join(p), "empty.join(p)"),
                      (Points.joined(Points.empty(), p, Points.empty()), "joined(empty, p, empty)")):
            bad = same(q, t)
            if bad:
                out.append(("C12|join-empty", "%s differs from p: %s" % (nm, bad)))
    elif k == "mask_fullshape":
        m = torch.ones(p.as_tensor.shape, dtype=torch.bool)
        try:
            q = p[m]
            out.append(("C12|mask-fullshape-accepted", "a boolean mask over the column axis was accepted and gave shape %s" % (tuple(q.as_tensor.shape),)))
        except (IndexError, AssertionError, ValueError, RuntimeError, TypeError):
            pass
    elif k == "coords_names":
        if p.variables != {n for n, _ in t.space}:
            out.append(("C12|variables", "variables %s" % p.variables))
    return out


class System:
    def __init__(self, init):
        self.init = init

    def initial(self):
        return [self.init]

    def enabled(self, model):
        return enabled(model)

    def canon(self, model):
        return model.canon()

    def build(self, init, hist):
        t = mk([tuple(x) for x in init["space"]], init["shape"])
        p = to_real(t)
        verdicts = []
        for i, op in enumerate(hist):
            last = i == len(hist) - 1
            try:
                t2, _ = apply_model(t, op)
                rejected = False
            except (Reject, IndexError):
                rejected = True
            if op[0] in ("roundtrip", "eq_self", "eq_reordered", "len", "coords_names", "pow", "iter", "join_empty", "mask_fullshape"):
                if last:
                    try:
                        verdicts += [(k + "|" + op[0], w) for k, w in observe(p, t, op)]
                    except Exception as e:
                        verdicts.append(("C12|error|%s|%s" % (type(e).__name__, op[0]), "%s raised %s: %s" % (op, type(e).__name__, e)))
                continue
            try:
                p2 = apply_real(p, t, op)
                err = None
            except Exception as e:
                p2, err = None, e
            if rejected:
                if err is None and last:
                    verdicts.append(("C12|accepted-invalid|%s" % op[0], "%s is invalid for the table model but the library accepted it" % (op,)))
                return None, None, verdicts
            if err is not None:
                if last:
                    verdicts.append(("C12|error|%s|%s" % (type(err).__name__, op[0]), "%s raised %s: %s" % (op, type(err).__name__, str(err)[:120])))
                return None, None, verdicts
            bad = same(p2, t2)
            if bad:
                if last:
                    verdicts.append(("C12|table-mismatch|%s" % op[0], "after %s: %s" % (op, bad)))
                return None, None, verdicts
            p, t = p2, t2
        return p, t, verdicts


def items(tier):
    out = []
    names = list(VARS)
    for k in range(1, BOUNDS[tier]["max_vars"] + 1):
        for sel in itertools.permutations(names, k):
            for shape in ([1], [3], [2, 2]):
                if tier == "quick" and k == 3 and shape != [3]:
                    continue
                out.append({"name": "%s%s" % ("".join(sel), shape), "space": [[n, VARS[n]] for n in sel], "shape": shape,
                            "tier": tier, "cost": k * int(np.prod(shape))})
    out.append({"name": "space-algebra", "space_algebra": True, "tier": tier})
    return out


def run_item(item):
    res = {"evals": 0, "transitions": 0, "states": 0, "outcomes": [], "violations": [], "rejected": 0, "samples": [], "traces": 0}
    seen = set()

    def on_v(key, what, init, hist):
        if key in seen:
            return
        seen.add(key)
        res["violations"].append({"key": key, "what": "table %s, history %s: %s" % (item["name"], hist, what),
                                  "detail": {"init": init, "history": hist}})
    if item.get("space_algebra"):
        return space_algebra(res, on_v)
    st = explorer.bfs(System(item), BOUNDS[item["tier"]]["depth"], on_v)
    res["states"] = st["states"]
    res["transitions"] = st["transitions"]
    res["evals"] = st["executions"]
    res["traces"] = st["executions"]
    res["outcomes"] = ["%s#%d" % (item["name"], i) for i in range(st["outcomes"])]
    res["samples"] = [{"initial": item["name"], "states": st["states"], "max_depth": st["max_depth"]}]
    return res


def space_algebra(res, on_v):
    names = list(VARS)
    sels = [list(s) for k in range(0, 4) for s in itertools.permutations(names, k)]
    n = 0
    for a in sels:
        A = Space({v: VARS[v] for v in a})
        n += 1
        if A.dim != sum(VARS[v] for v in a) or list(A.keys()) != a or A.variables != set(a):
            on_v("C12|space|dim-keys", "Space(%s): dim %s keys %s" % (a, A.dim, list(A.keys())), None, [])
        for v in names:
            if (v in A) != (v in a):
                on_v("C12|space|contains-name", "%r in Space(%s) is %s" % (v, a, v in A), None, [])
        if 7 in A or [1] in A:
            on_v("C12|space|contains-other", "non-space object reported as contained", None, [])
        for b in sels:
            B = Space({v: VARS[v] for v in b})
            n += 1
            if (A == B) != (a == b):
                on_v("C12|space|eq", "Space(%s) == Space(%s) is %s" % (a, b, A == B), None, [])
            # products merge equal names by adding their dimensions, in order (second factor with other dims)
            B2 = Space({v: VARS2[v] for v in b})
            Pm = A * B2
            expm = [(v, VARS[v] + (VARS2[v] if v in b else 0)) for v in a] + [(v, VARS2[v]) for v in b if v not in a]
            if list(Pm.items()) != expm or Pm.dim != A.dim + B2.dim:
                on_v("C12|space|product-merge", "Space(%s)*Space(%s with dims %s) = %s (dim %s), expected %s" % (
                    a, b, [VARS2[v] for v in b], list(Pm.items()), Pm.dim, expm), None, [])
            # a space with a shared name of LARGER dimension is not a sub-space (Space is a multiset of dimensions:
            # a smaller dimension under the same name does count as contained, which is the library's stated design)
            if b and all(v in a for v in b) and any(VARS2[v] > VARS[v] for v in b):
                if B2 in A:
                    on_v("C12|space|subspace-ignores-dims", "Space(%s with dims %s) in Space(%s with dims %s) is True" % (
                        b, [VARS2[v] for v in b], a, [VARS[v] for v in a]), None, [])
            if set(a).isdisjoint(b):
                Pr = A * B
                if list(Pr.items()) != [(v, VARS[v]) for v in a + b]:
                    on_v("C12|space|product", "Space(%s)*Space(%s) = %s" % (a, b, list(Pr.items())), None, [])
                if Pr.dim != A.dim + B.dim:
                    on_v("C12|space|product-dim", "dim of product %s" % Pr.dim, None, [])
                if not (A in Pr and B in Pr):
                    on_v("C12|space|factor-in-product", "a factor is not reported as sub-space of the product (%s, %s)" % (a, b), None, [])
            # ordered sub-selection in the same order is a sub-space; a space with a foreign variable is not
            if b and all(v in a for v in b) and [v for v in a if v in b] == b:
                if B not in A:
                    on_v("C12|space|subspace", "Space(%s) not in Space(%s)" % (b, a), None, [])
            if any(v not in a for v in b):
                if B in A:
                    on_v("C12|space|not-subspace", "Space(%s) in Space(%s)" % (b, a), None, [])
        # slicing by names / lists
        for i in range(len(a)):
            for j in range(i, len(a) + 1):
                stop = a[j] if j < len(a) else None
                S = A[a[i]:stop]
                if list(S.items()) != [(v, VARS[v]) for v in a[i:j if j < len(a) else None]]:
                    on_v("C12|space|slice", "Space(%s)[%s:%s] = %s" % (a, a[i], stop, list(S.items())), None, [])
        for k in range(1, len(a) + 1):
            for sub in itertools.permutations(a, k):
                S = A[list(sub)]
                if list(S.items()) != [(v, VARS[v]) for v in sub]:
                    on_v("C12|space|list-select", "Space(%s)[%s] = %s" % (a, list(sub), list(S.items())), None, [])
        for st_ in (2, -1, -2):
            S = A[::st_]
            n += 1
            if list(S.items()) != [(v, VARS[v]) for v in a[::st_]]:
                on_v("C12|space|step-slice", "Space(%s)[::%d] = %s" % (a, st_, list(S.items())), None, [])
        if len(a) >= 2:
            S = A[a[-1]:a[0]:-1]
            n += 1
            if list(S.items()) != [(v, VARS[v]) for v in a[len(a) - 1:0:-1]]:
                on_v("C12|space|step-slice", "Space(%s)[%s:%s:-1] = %s" % (a, a[-1], a[0], list(S.items())), None, [])
        for v in a:
            if A[v] != VARS[v]:
                on_v("C12|space|getitem", "Space(%s)[%s] = %s" % (a, v, A[v]), None, [])
        # copies (deepcopy / pickle go through __reduce__) keep names, dimensions and order
        import copy
        import pickle
        for nm, C in (("deepcopy", copy.deepcopy(A)), ("pickle", pickle.loads(pickle.dumps(A)))):
            n += 1
            if list(C.items()) != [(v, VARS[v]) for v in a] or not (C == A) or C.dim != A.dim:
                on_v("C12|space|copy", "%s of Space(%s) is %s" % (nm, a, list(C.items())), None, [])
    from torchphysics.problem.spaces import R1, R2, R3, Rn
    for cls, args, d in ((R1, ("q",), 1), (R2, ("q",), 2), (R3, ("q",), 3), (Rn, ("q", 5), 5)):
        Sx = cls(*args)
        n += 1
        if list(Sx.items()) != [("q", d)] or Sx.dim != d or not (Sx == Space({"q": d})):
            on_v("C12|space|named-constructors", "%s%s = %s" % (cls.__name__, args, list(Sx.items())), None, [])
        # ... and can be copied like any other space (models and conditions holding them are deep-copied and pickled)
        import copy
        import pickle
        for nm, fn in (("deepcopy", copy.deepcopy), ("pickle", lambda z: pickle.loads(pickle.dumps(z)))):
            n += 1
            try:
                C = fn(Sx)
                if list(C.items()) != [("q", d)] or not (C == Sx):
                    on_v("C12|space|copy", "%s of %s%s is %s" % (nm, cls.__name__, args, list(C.items())), None, [])
            except Exception as e:
                on_v("C12|space|copy-error|%s" % cls.__name__, "%s of %s%s raised %s: %s" % (nm, cls.__name__, args, type(e).__name__, str(e)[:80]), None, [])
    res["states"] = len(sels)
    res["transitions"] = n
    res["evals"] = n
    res["outcomes"] = ["space#%d" % i for i in range(len(sels))]
    res["samples"] = [{"space_algebra_pairs": n}]
    return res
