"""C20 -- Fourier layers are shift-equivariant, resolution-consistent convolutions."""
import itertools
import numpy as np
import torch
import torchphysics as tp
from torchphysics.models.FNO import _FourierLayer
from torchphysics.problem.spaces import Points, Space

PROP = "C20"
LEVEL = "model_checking"
TECHNIQUE = ("exhaustive enumeration of grid resolutions x mode counts (truncating and padding) x channels x connection flags; "
             "equivariance checked on the COMPLETE canonical basis and all Fourier modes for ALL circular shifts along every axis "
             "(complete for the affine single layer); 1-D layer compared with a dense float64 DFT reference; resolution pairs")
RULE = ("1-D: N in {4,5,8,9,12} x modes 1..N/2+2 x channels {1,2} x (linear, skip, bias) flags; 2-D: (N1,N2) in {4,5,6}^2 x modes "
        "in {1..4}^2; FNO with 1-2 layers; inputs: every basis field delta_(node,channel) and every real Fourier mode; every "
        "shift; resolution pairs (N,2N,3N) with every band-limited mode; distinct by configuration")
ASSUMPTIONS = ["dense DFT reference in float64 written in this file (no torch.fft)", "tolerance 1e-5 (float32 layers)"]
BOUNDS = {"quick": {"N1": [4, 5, 8, 9, 12], "N2": [4, 5, 6]}, "thorough": {"N1": [3, 4, 5, 6, 7, 8, 9, 10, 11, 12, 16, 17], "N2": [3, 4, 5, 6, 7, 8]}}
ITEM_LIMIT = {"quick": 900, "thorough": 3600}


def items(tier):
    out = []
    for N in BOUNDS[tier]["N1"]:
        out.append({"name": "layer1d|N=%d" % N, "kind": "1d", "N": N, "tier": tier, "cost": N})
    for N1, N2 in itertools.product(BOUNDS[tier]["N2"], repeat=2):
        out.append({"name": "layer2d|%dx%d" % (N1, N2), "kind": "2d", "N": [N1, N2], "tier": tier, "cost": N1 * N2})
    out.append({"name": "fno", "kind": "fno", "tier": tier, "cost": 50})
    out.append({"name": "resolution", "kind": "res", "tier": tier, "cost": 30})
    if tier == "thorough":
        out.append({"name": "layer3d|4x3x4", "kind": "3d", "N": [4, 3, 4], "tier": tier, "cost": 60})
    return out


def make_layer(channels, modes, lin, skip, bias, seed):
    torch.manual_seed(seed)
    lay = _FourierLayer(channels, modes, linear_connection=lin, skip_connection=skip, bias=bias)
    with torch.no_grad():
        k = lay.fourier_kernel
        g = torch.Generator().manual_seed(seed + 1)
        k.copy_(torch.complex(torch.randn(k.shape, generator=g), torch.randn(k.shape, generator=g)))
    return lay


def basis_inputs(shape, channels):
    """all delta fields and all real Fourier modes on the grid `shape`, as one batch"""
    n = int(np.prod(shape))
    xs = []
    for node in range(n):
        for c in range(channels):
            x = torch.zeros(n, channels)
            x[node, c] = 1.0
            xs.append(x.reshape(tuple(shape) + (channels,)))
    grids = np.meshgrid(*[np.arange(s) for s in shape], indexing="ij")
    for ks in itertools.product(*[range(0, s // 2 + 1) for s in shape]):
        ph = sum(2 * np.pi * k * g / s for k, g, s in zip(ks, grids, shape))
        for f in (np.cos, np.sin):
            x = torch.tensor(f(ph), dtype=torch.float32).unsqueeze(-1).repeat(*([1] * len(shape)), channels)
            x[..., -1] *= 0.5
            xs.append(x)
    return torch.stack(xs)


def equivariance(fn, X, shape, tol=1e-5):
    """fn(roll(X)) == roll(fn(X)) for every shift along every spatial axis; returns (bad description or None, #shifts)"""
    with torch.no_grad():
        Y = fn(X)
        cnt = 0
        for ax, s in enumerate(shape):
            for sh in range(1, s):
                cnt += 1
                Xr = torch.roll(X, sh, dims=ax + 1)
                Xr_copy = Xr.clone()
                Yr = fn(Xr)
                if not torch.equal(Xr, Xr_copy):
                    return "the input tensor was modified by the call", cnt
                exp = torch.roll(Y, sh, dims=ax + 1)
                err = float((Yr - exp).abs().max())
                if not err <= tol * max(1.0, float(Y.abs().max())):
                    i = int((Yr - exp).abs().reshape(len(X), -1).max(1).values.argmax())
                    return "shift by %d along axis %d: output differs from the shifted output by %.3g (input #%d of the basis batch)" % (sh, ax, err, i), cnt
    return None, cnt


def dense_layer_1d(x, kernel, m):
    """reference spectral convolution, x (B,N,C) float64, kernel (m,C) complex128"""
    B, N, C = x.shape
    K = N // 2 + 1
    j = np.arange(N)
    k = np.arange(K)
    F = np.exp(-2j * np.pi * np.outer(k, j) / N)          # (K,N)
    Xh = np.einsum("kn,bnc->bkc", F, x)                    # (B,K,C)
    Yh = np.zeros((B, K, C), dtype=np.complex128)
    kk = min(K, m)
    Yh[:, :kk] = Xh[:, :kk] * kernel[None, :kk]
    # inverse real transform (c2r): imaginary parts of the k=0 and Nyquist coefficients are ignored
    y = np.zeros((B, N, C))
    for kq in range(K):
        w = np.exp(2j * np.pi * kq * j / N)               # (N,)
        term = np.real(Yh[:, kq][:, None, :] * w[None, :, None])
        if kq == 0 or (N % 2 == 0 and kq == N // 2):
            y += np.real(Yh[:, kq].real[:, None, :] * w.real[None, :, None])
        else:
            y += 2 * term
    return y / N


def run_item(item):
    res = {"evals": 0, "transitions": 0, "states": [], "outcomes": [], "violations": [], "rejected": 0, "samples": []}
    seen = set()

    def viol(key, what):
        if key in seen:
            return
        seen.add(key)
        res["violations"].append({"key": key, "what": what, "detail": {"item": item["name"]}})
    kind = item["kind"]
    flags = [(False, False, False), (True, False, False), (True, False, True), (False, True, False), (True, True, True)]
    if kind == "1d":
        N = item["N"]
        for m in range(1, N // 2 + 3):
            for C in (1, 2):
                for lin, skip, bias in flags:
                    cfg = "N=%d modes=%d channels=%d linear=%s skip=%s bias=%s" % (N, m, C, lin, skip, bias)
                    res["states"].append(cfg)
                    try:
                        lay = make_layer(C, m, lin, skip, bias, seed=N * 100 + m)
                        X = basis_inputs((N,), C)
                        bad, cnt = equivariance(lay, X, (N,))
                    except Exception as e:
                        viol("C20|error|%s|layer1d" % type(e).__name__, "%s raised %s: %s" % (cfg, type(e).__name__, str(e)[:120]))
                        continue
                    res["evals"] += cnt * len(X)
                    res["transitions"] += cnt
                    if bad:
                        viol("C20|not-equivariant|layer1d|%s" % ("pad" if m > N // 2 + 1 else "truncate"), "%s: %s" % (cfg, bad))
                        continue
                    if not lin and not skip:
                        with torch.no_grad():
                            got = lay(X).double().numpy()
                        exp = dense_layer_1d(X.double().numpy(), lay.fourier_kernel.detach().to(torch.complex128).numpy(), m)
                        if not np.allclose(got, exp, rtol=1e-4, atol=1e-5):
                            i = np.unravel_index(np.argmax(np.abs(got - exp)), got.shape)
                            viol("C20|dense-dft-mismatch|layer1d", "%s: output %.6f at %s, dense DFT reference %.6f" % (cfg, got[i], i, exp[i]))
                            continue
                    res["outcomes"].append(cfg)
    elif kind in ("2d", "3d"):
        shape = tuple(item["N"])
        mode_sets = list(itertools.product(range(1, 5), repeat=len(shape))) if kind == "2d" else [(2, 2, 2), (3, 2, 4), (1, 3, 2), (4, 4, 4)]
        for modes in mode_sets:
            for C, (lin, skip, bias) in ((1, flags[0]), (2, flags[4])):
                cfg = "grid=%s modes=%s channels=%d linear=%s skip=%s bias=%s" % (shape, modes, C, lin, skip, bias)
                res["states"].append(cfg)
                try:
                    lay = make_layer(C, modes, lin, skip, bias, seed=sum(shape) * 10 + sum(modes))
                    X = basis_inputs(shape, C)
                    bad, cnt = equivariance(lay, X, shape)
                except Exception as e:
                    viol("C20|error|%s|layer%s" % (type(e).__name__, kind), "%s raised %s: %s" % (cfg, type(e).__name__, str(e)[:120]))
                    continue
                res["evals"] += cnt * len(X)
                res["transitions"] += cnt
                if bad:
                    viol("C20|not-equivariant|layer%s" % kind, "%s: %s" % (cfg, bad))
                else:
                    res["outcomes"].append(cfg)
    elif kind == "fno":
        for dim, shape, modes in ((1, (8,), 3), (1, (9,), 6), (2, (4, 5), (2, 3)), (2, (6, 4), (4, 4))):
            for layers in (1, 2, 3):
                for skip, lin in ((False, True), (True, True), (True, False)):
                    if layers == 3 and (dim == 1 or not lin):
                        continue
                    cfg = "FNO dim=%d grid=%s modes=%s layers=%d skip=%s linear=%s" % (dim, shape, modes, layers, skip, lin)
                    res["states"].append(cfg)
                    torch.manual_seed(7 + layers)
                    try:
                        kw = {}
                        if layers == 3:
                            # one mode tuple shared by all layers (shorter than the number of layers, hence unambiguous),
                            # and user-supplied point-wise channel networks
                            fm = list(modes)
                            kw = dict(channel_up_sample_network=torch.nn.Sequential(torch.nn.Linear(2, 4), torch.nn.Tanh(), torch.nn.Linear(4, 3)),
                                      channel_down_sample_network=torch.nn.Sequential(torch.nn.Linear(3, 2), torch.nn.Tanh(), torch.nn.Linear(2, 1)))
                        else:
                            fm = modes if dim == 1 else [list(modes)] * layers     # unambiguous list-of-lists form
                        net = tp.models.FNO(Space({"f": 2}), Space({"u": 1}), fourier_layers=layers, hidden_channels=3,
                                            fourier_modes=fm, skip_connections=skip, linear_connections=lin, **kw)
                        X = basis_inputs(shape, 2)
                        X = torch.cat([X, X[:-1] + X[1:]])           # pairwise sums: the network is not linear
                        fn = lambda z: net(Points(z, Space({"f": 2}))).as_tensor
                        bad, cnt = equivariance(fn, X, shape)
                    except Exception as e:
                        viol("C20|error|%s|fno" % type(e).__name__, "%s raised %s: %s" % (cfg, type(e).__name__, str(e)[:120]))
                        continue
                    res["evals"] += cnt * len(X)
                    res["transitions"] += cnt
                    if bad:
                        viol("C20|not-equivariant|fno", "%s: %s" % (cfg, bad))
                    else:
                        res["outcomes"].append(cfg)
                    # the same network over TWO named input fields (f, g), fed with the fields stored in the other order:
                    # still shift-equivariant along every axis and equal to the output for the declared order
                    try:
                        torch.manual_seed(7 + layers)
                        net2 = tp.models.FNO(Space({"f": 1, "g": 1}), Space({"u": 1}), fourier_layers=layers, hidden_channels=3,
                                             fourier_modes=fm, skip_connections=skip, linear_connections=lin, **kw)
                        Xs = X[: min(len(X), 12)]
                        fwd = lambda z: net2(Points(z, Space({"f": 1, "g": 1}))).as_tensor
                        rev = lambda z: net2(Points(torch.flip(z, dims=(-1,)), Space({"g": 1, "f": 1}))).as_tensor
                        with torch.no_grad():
                            a_, b_ = fwd(Xs), rev(Xs)
                        if a_.shape != b_.shape or not torch.allclose(a_, b_, rtol=1e-5, atol=1e-6):
                            viol("C20|fno-variable-order", "%s: the fields (f, g) stored as (g, f) give output shape %s / other values than in the declared order (shape %s)" % (
                                cfg, tuple(b_.shape), tuple(a_.shape)))
                        else:
                            bad2, cnt2 = equivariance(rev, Xs, shape)
                            res["evals"] += cnt2 * len(Xs)
                            if bad2:
                                viol("C20|not-equivariant|fno-reordered", "%s (fields stored as g, f): %s" % (cfg, bad2))
                    except Exception as e:
                        viol("C20|error|%s|fno-reordered" % type(e).__name__, "%s with fields (g, f) raised %s: %s" % (cfg, type(e).__name__, str(e)[:120]))
    else:
        # resolution consistency of one 1-D layer for band-limited inputs
        for N in (4, 5, 6, 8):
            for m in range(1, 6):
                for fac in (2, 3):
                    for lin, skip, bias in (flags[0], flags[4]):
                        cfg = "coarse N=%d fine N=%d modes=%d linear=%s skip=%s" % (N, fac * N, m, lin, skip)
                        res["states"].append(cfg)
                        lay = make_layer(2, m, lin, skip, bias, seed=N + m)
                        ok = True
                        for k in range(0, min(m, (N + 1) // 2)):
                            if N % 2 == 0 and k == N // 2:
                                continue
                            for f in (np.cos, np.sin):
                                def field(n):
                                    xg = np.arange(n) / n
                                    v = f(2 * np.pi * k * xg)
                                    return torch.tensor(np.stack([v, 0.5 * v + 0.25], -1), dtype=torch.float32).unsqueeze(0)
                                try:
                                    with torch.no_grad():
                                        yc = lay(field(N))
                                        yf = lay(field(fac * N))
                                    if yf.shape[1] != fac * N or yc.shape[1] != N:
                                        raise RuntimeError("output grids have %d and %d nodes for inputs with %d and %d" % (yc.shape[1], yf.shape[1], N, fac * N))
                                except Exception as e:
                                    viol("C20|error|%s|resolution" % type(e).__name__, "%s: ONE layer evaluated on the coarse and then on the fine grid raised %s: %s" % (
                                        cfg, type(e).__name__, str(e)[:120]))
                                    ok = False
                                    break
                                res["evals"] += 1
                                res["transitions"] += 1
                                err = float((yf[:, ::fac] - yc).abs().max())
                                if err > 1e-5 * max(1.0, float(yc.abs().max())):
                                    viol("C20|resolution-inconsistent", "%s, input mode k=%d (%s): outputs at the shared nodes differ by %.3g" % (cfg, k, f.__name__, err))
                                    ok = False
                        if ok:
                            res["outcomes"].append(cfg)
        # ONE FNO instance used on several grids one after the other (all ordered pairs of grids): the output lives on
        # the grid of the CURRENT input and equals what an unused copy of the network gives there (nothing about an
        # earlier resolution may be remembered)
        import copy as _copy
        grids = {1: [(4,), (8,), (6,), (16,)], 2: [(4, 6), (6, 4), (8, 6), (4, 4)]}
        for dim in (1, 2):
            for layers in (1, 2):
                torch.manual_seed(11 + dim + layers)
                fm = 2 if dim == 1 else [[2, 2]] * layers
                net0 = tp.models.FNO(Space({"f": 2}), Space({"u": 1}), fourier_layers=layers, hidden_channels=3, fourier_modes=fm)
                for g1 in grids[dim]:
                    for g2 in grids[dim]:
                        if g1 == g2:
                            continue
                        cfg = "fno dim=%d layers=%d grid %s then %s" % (dim, layers, g1, g2)
                        res["states"].append(cfg)
                        used, fresh = _copy.deepcopy(net0), _copy.deepcopy(net0)
                        gen = torch.Generator().manual_seed(5)
                        x1 = torch.rand((2,) + g1 + (2,), generator=gen)
                        x2 = torch.rand((2,) + g2 + (2,), generator=gen)
                        try:
                            with torch.no_grad():
                                used(Points(x1, Space({"f": 2})))
                                y_used = used(Points(x2, Space({"f": 2}))).as_tensor
                                y_fresh = fresh(Points(x2, Space({"f": 2}))).as_tensor
                        except Exception as e:
                            viol("C20|error|%s|fno-two-grids" % type(e).__name__, "%s raised %s: %s" % (cfg, type(e).__name__, str(e)[:120]))
                            continue
                        res["evals"] += 3
                        res["transitions"] += 1
                        if tuple(y_used.shape) != (2,) + g2 + (1,):
                            viol("C20|fno-remembers-grid|shape", "%s: output shape %s for an input on grid %s" % (cfg, tuple(y_used.shape), g2))
                        elif not torch.allclose(y_used, y_fresh, rtol=1e-5, atol=1e-6):
                            viol("C20|fno-remembers-grid|values", "%s: the output differs from that of an unused copy of the network by %.3g" % (
                                cfg, float((y_used - y_fresh).abs().max())))
                        else:
                            res["outcomes"].append(cfg)
    res["samples"] = [{"case": item["name"], "configurations": len(res["states"])}]
    return res
