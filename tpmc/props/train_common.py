"""shared pieces of the training drivers (C07, C19): world factory, reference optimisation loop, Lightning runner"""
import logging
import math
import os
import shutil
import tempfile
import warnings
import numpy as np
import torch
import torch.nn as nn
import torchphysics as tp
import pytorch_lightning as pl
from torchphysics.problem.spaces import Points, Space, FunctionSpace
from torchphysics.utils.data.dataloader import PointsDataLoader

from ..kernel.seam import Seam

for _n in ("pytorch_lightning", "lightning.pytorch", "lightning", "lightning_fabric", "lightning.fabric"):
    logging.getLogger(_n).setLevel(logging.ERROR)
warnings.filterwarnings("ignore")

X, U = Space({"x": 1}), Space({"u": 1})
MENU = ["pinn_static", "boundary", "param_penalty", "pinn_param", "adaptive_w", "data2", "pinn_random", "pideeponet", "periodic_param", "ritz",
        "pideeponet_r", "pideeponet_r2", "qres", "ritznet", "pinn_static_interval", "pinn_intparam"]
OPTS = {
    "sgd": dict(cls=torch.optim.SGD, lr=0.05, args={}),
    "sgd_momentum": dict(cls=torch.optim.SGD, lr=0.05, args={"momentum": 0.9}),
    "adam": dict(cls=torch.optim.Adam, lr=0.01, args={}),
    "adam_steplr": dict(cls=torch.optim.Adam, lr=0.01, args={}, sched=torch.optim.lr_scheduler.StepLR, sargs={"step_size": 2, "gamma": 0.5}, freq=1),
    "sgd_steplr_f2": dict(cls=torch.optim.SGD, lr=0.05, args={}, sched=torch.optim.lr_scheduler.StepLR, sargs={"step_size": 1, "gamma": 0.5}, freq=2),
    # optimizer arguments whose configured value is "falsy" but differs from the class default (AdamW: weight_decay 0.01, amsgrad False)
    "adamw_wd0": dict(cls=torch.optim.AdamW, lr=0.01, args={"weight_decay": 0.0, "amsgrad": True}),
}


# ONE configuration tensor reused by every World of a process (a model must copy it, not adopt it as its parameter)
INITIAL_SLOPE = torch.tensor(0.9)


class DriftSampler(tp.samplers.PointSampler):
    """deterministic NON-static parameter sampler of a function set: the c-th draw returns k = (0.1, 0.6) + 0.07*c.
    The number of draws is observable (one per training step is the documented behaviour)."""
    def __init__(self):
        super().__init__(n_points=2)
        self.calls = 0

    def sample_points(self, params=Points.empty(), device="cpu", **kw):
        c = self.calls
        self.calls += 1
        return Points(torch.tensor([[0.1 + 0.07 * c], [0.6 + 0.07 * c]]), Space({"k": 1}))


class World:
    """fresh, identically initialised user objects; conditions are built from them on demand"""
    def __init__(self, seed=123):
        torch.manual_seed(seed)
        # ONE adaptive activation instance serves both hidden layers: its parameter `a` is tied (two state-dict keys)
        self.model = tp.models.FCN(X, U, hidden=(4, 3), activations=tp.models.AdaptiveActivationFunction(nn.Tanh(), inital_a=INITIAL_SLOPE))
        self.model2 = tp.models.FCN(X, U, hidden=(3,))
        self.model3 = tp.models.QRES(X, U, hidden=(3, 2))
        self.model4 = tp.models.DeepRitzNet(X, U, width=3, depth=2)
        # a Fourier neural operator with batch normalisation (running statistics are state, too)
        self.model5 = tp.models.FNO(Space({"f": 1}), U, fourier_layers=1, hidden_channels=2, fourier_modes=2, space_resolution=6)
        self.D = tp.models.Parameter(init=0.7, space=Space({"D": 1}))
        self.J = tp.models.Parameter(init=0.3, space=Space({"J": 1}))      # only used by the periodic condition
        self.K = tp.models.Parameter(init=2, space=Space({"K": 1}))        # initial guess given as a Python int
        self.dom = tp.domains.Interval(X, 0.0, 1.0)
        self.conds = {}
        self._deeponet = None
        self._deeponet_r = None
        self.drift = DriftSampler()

    def deeponet_r(self):
        """a second DeepONet whose function set is re-drawn (deterministically) in every training step and is SHARED by
        two conditions"""
        if self._deeponet_r is None:
            from torchphysics.models.deeponet.branchnets import FCBranchNet
            from torchphysics.models.deeponet.trunknets import FCTrunkNet
            from torchphysics.models.deeponet.deeponet import DeepONet
            from torchphysics.problem.domains import CustomFunctionSet
            torch.manual_seed(322)
            fs = FunctionSpace(tp.domains.Interval(Space({"t": 1}), 0, 1), Space({"e": 1}))
            ds = tp.samplers.GridSampler(fs.input_domain, 3).make_static()
            net = DeepONet(FCTrunkNet(X, hidden=(3,)), FCBranchNet(fs, discretization_sampler=ds, hidden=(3,)), output_space=U, output_neurons=2)
            fset = CustomFunctionSet(fs, self.drift, lambda k, t: torch.sin(3 * k * t) + k)
            self._deeponet_r = (net, fset)
        return self._deeponet_r

    def deeponet(self):
        if self._deeponet is None:
            from torchphysics.models.deeponet.branchnets import FCBranchNet
            from torchphysics.models.deeponet.trunknets import FCTrunkNet
            from torchphysics.models.deeponet.deeponet import DeepONet
            from torchphysics.problem.domains import CustomFunctionSet
            torch.manual_seed(321)
            fs = FunctionSpace(tp.domains.Interval(Space({"t": 1}), 0, 1), Space({"e": 1}))
            ds = tp.samplers.GridSampler(fs.input_domain, 3).make_static()
            net = DeepONet(FCTrunkNet(X, hidden=(3,)), FCBranchNet(fs, discretization_sampler=ds, hidden=(3,)), output_space=U, output_neurons=2)
            fset = CustomFunctionSet(fs, tp.samplers.GridSampler(tp.domains.Interval(Space({"k": 1}), 0, 1), 2).make_static(), lambda k, t: torch.sin(3 * k * t) + k)
            self._deeponet = (net, fset)
        return self._deeponet

    def make(self, kind, weight=1.0, iters=None):
        S, Cn = tp.samplers, tp.conditions
        log = iters if iters is not None else []
        if kind == "pinn_static":
            def res(u, x):
                return tp.utils.laplacian(u, x) - 1.0 + u
            c = Cn.PINNCondition(self.model, S.GridSampler(self.dom, 5).make_static(), res, weight=weight, name=kind)
        elif kind == "boundary":
            c = Cn.PINNCondition(self.model, S.GridSampler(self.dom.boundary, 2).make_static(), lambda u: u - 0.3, weight=weight, name=kind)
        elif kind == "param_penalty":
            c = Cn.ParameterCondition(self.D, lambda D: (D - 1.0) ** 2, weight=weight, name=kind)
        elif kind == "pinn_param":
            c = Cn.PINNCondition(self.model, S.GridSampler(self.dom, 4).make_static(), lambda u, x, D: D * u - x, parameter=self.D, weight=weight, name=kind)
        elif kind == "adaptive_w":
            c = Cn.AdaptiveWeightsCondition(self.model2, S.GridSampler(self.dom, 4).make_static(), lambda u, x: u - torch.sin(3 * x), weight=weight, name=kind)
        elif kind == "data2":
            xs = torch.linspace(0, 1, 4).reshape(4, 1)
            ld = PointsDataLoader((Points(xs, X), Points(xs ** 2 + 0.1, U)), batch_size=2)
            c = Cn.DataCondition(self.model, ld, norm=2, weight=weight, name=kind)
        elif kind == "pinn_random":
            c = Cn.PINNCondition(self.model, S.RandomUniformSampler(self.dom, 3), lambda u, x: u - x, weight=weight, name=kind)
        elif kind == "pideeponet":
            net, fset = self.deeponet()
            c = Cn.PIDeepONetCondition(net, fset, S.GridSampler(self.dom, 3).make_static(), lambda u, x: u - x, weight=weight, name=kind)
        elif kind in ("pideeponet_r", "pideeponet_r2"):
            net, fset = self.deeponet_r()
            fn = (lambda u, x: u - x) if kind == "pideeponet_r" else (lambda u, x: u + 0.5 * x * x)
            c = Cn.PIDeepONetCondition(net, fset, S.GridSampler(self.dom, 3 if kind == "pideeponet_r" else 2).make_static(), fn, weight=weight, name=kind)
        elif kind == "fno_data":
            g = torch.linspace(0, 1, 6).reshape(1, 6, 1)
            fin = torch.cat([torch.sin(3 * g + i) for i in range(4)], 0)
            ld = PointsDataLoader((Points(fin, Space({"f": 1})), Points(0.5 * fin ** 2, U)), batch_size=2)
            c = Cn.DataCondition(self.model5, ld, norm=2, weight=weight, name=kind)
        elif kind == "ritznet":
            c = Cn.PINNCondition(self.model4, S.GridSampler(self.dom, 4).make_static(), lambda u, x: u - x * x, weight=weight, name=kind)
        elif kind == "pinn_static_interval":
            # a static sampler that draws a fresh set every second use: one sampling call per training step, no other
            c = Cn.PINNCondition(self.model, S.RandomUniformSampler(self.dom, 3).make_static(resample_interval=2), lambda u, x: u - 2.0 * x,
                                 weight=weight, name=kind)
        elif kind == "pinn_intparam":
            c = Cn.PINNCondition(self.model, S.GridSampler(self.dom, 3).make_static(), lambda u, x, K: K * u - x - 1.0, parameter=self.K, weight=weight, name=kind)
        elif kind == "qres":
            c = Cn.PINNCondition(self.model3, S.GridSampler(self.dom, 4).make_static(), lambda u, x: u - torch.cos(2 * x), weight=weight, name=kind)
        elif kind == "periodic_param":
            c = Cn.PeriodicCondition(self.model, self.dom, lambda u_left, u_right, J: u_left - u_right - J, parameter=self.J, weight=weight, name=kind)
        elif kind == "ritz":
            def integrand(u, x):
                return 0.5 * tp.utils.grad(u, x) ** 2 - u * torch.sin(3 * x)
            c = Cn.DeepRitzCondition(self.model, S.GridSampler(self.dom, 6).make_static(), integrand, weight=weight, name=kind)
        elif kind == "val_data":
            xs = torch.linspace(0, 1, 3).reshape(3, 1)
            ld = PointsDataLoader((Points(xs, X), Points(xs * 0.5, U)), batch_size=3)
            c = Cn.DataCondition(self.model, ld, norm=2, use_full_dataset=True, name=kind)
        elif kind == "val_pinn":
            c = Cn.PINNCondition(self.model, S.GridSampler(self.dom, 3).make_static(), lambda u, x: u - x, name=kind, track_gradients=False)
        elif kind == "val_deriv":
            def res_d(u, x):
                return tp.utils.grad(u, x) - torch.cos(2 * x)
            c = Cn.PINNCondition(self.model, S.GridSampler(self.dom, 4).make_static(), res_d, name=kind)
        else:
            raise ValueError(kind)
        if iters is not None:
            orig = c.forward

            def fwd(device="cpu", iteration=None, _o=orig, _k=kind):
                log.append((_k, iteration))
                return _o(device=device, iteration=iteration)
            c.forward = fwd
        self.conds[kind] = c
        return c


def learnables(conds):
    """every learnable tensor reachable from the conditions (own attribute walk, no nn.Module.parameters of the list)"""
    out, seen = [], set()

    def add(name, t):
        if isinstance(t, torch.Tensor) and t.requires_grad and t.is_leaf and id(t) not in seen:
            seen.add(id(t))
            out.append((name, t))

    def walk(name, obj, depth=0):
        if depth > 4 or obj is None:
            return
        if isinstance(obj, nn.Module):
            for n, p in obj.named_parameters():
                add("%s.%s" % (name, n), p)
            # leaf tensors that require gradients but are plain attributes of some sub-module (not registered parameters)
            # are learnable state as well: the optimizer must get them
            for mn, m in obj.named_modules():
                for k, v in vars(m).items():
                    if isinstance(v, torch.Tensor) and not k.startswith("_"):
                        add("%s.%s.%s<attribute>" % (name, mn, k), v)
                    elif isinstance(v, (list, tuple)) and not k.startswith("_"):
                        # sub-modules kept in a plain Python list are not registered: their weights are learnable state too
                        for i_, sub_ in enumerate(v):
                            if isinstance(sub_, nn.Module):
                                for n_, p_ in sub_.named_parameters():
                                    add("%s.%s.%s[%d].%s<unregistered module>" % (name, mn, k, i_, n_), p_)
            for k, v in vars(obj).items():
                if k.startswith("_") and k not in ("_modules",):
                    continue
                if k in ("_modules",):
                    continue
                walk("%s.%s" % (name, k), v, depth + 1)
        elif isinstance(obj, Points):
            add(name, obj.as_tensor)
        elif isinstance(obj, (list, tuple)):
            for i, v in enumerate(obj):
                walk("%s[%d]" % (name, i), v, depth + 1)
        elif callable(obj) and hasattr(obj, "__closure__") and obj.__closure__:
            for i, cell in enumerate(obj.__closure__):
                try:
                    v = cell.cell_contents
                except ValueError:
                    continue
                if isinstance(v, nn.Module):
                    walk("%s<closure%d>" % (name, i), v, depth + 1)
    for c in conds:
        walk(c.name, c)
    return out


def snapshot(named):
    return {n: t.detach().clone() for n, t in named}


def opt_state_of(opt, named):
    by_id = {id(t): n for n, t in named}
    out = {}
    for g in opt.param_groups:
        for p in g["params"]:
            st = opt.state.get(p, {})
            out[by_id.get(id(p), "?%d" % id(p))] = {k: (v.detach().clone() if isinstance(v, torch.Tensor) else v) for k, v in st.items()}
    return out, [g["lr"] for g in opt.param_groups]


def reference_run(kinds, weights, optname, N):
    """the plain loop of the property statement; returns per-step snapshots"""
    w = World()
    iters = []
    conds = [w.make(k, wt, iters) for k, wt in zip(kinds, weights)]
    named = learnables(conds)
    o = OPTS[optname]
    opt = o["cls"]([t for _, t in named], lr=o["lr"], **o["args"])
    sched = o["sched"](opt, **o["sargs"]) if "sched" in o else None
    snaps, osnaps = [], []
    with Seam(budget=100000):
        for i in range(N):
            # the weights are the CONFIGURED ones (not read back from the condition objects)
            loss = sum(wt * c(device="cpu", iteration=i) for wt, c in zip(weights, conds))
            opt.zero_grad()
            loss.backward()
            opt.step()
            if sched is not None and (i + 1) % o["freq"] == 0:
                sched.step()
            snaps.append(snapshot(named))
            osnaps.append(opt_state_of(opt, named))
    return snaps, osnaps, iters, named


class StepRecorder(pl.Callback):
    def __init__(self, named, model=None):
        self.named = named
        self.model = model
        self.snaps, self.osnaps, self.sd_snaps = [], [], []

    def on_train_batch_end(self, trainer, pl_module, outputs, batch, batch_idx, dataloader_idx=0):
        self.snaps.append(snapshot(self.named))
        self.osnaps.append(opt_state_of(trainer.optimizers[0], self.named))
        if self.model is not None:
            self.sd_snaps.append({k: v.detach().clone() for k, v in self.model.state_dict().items()})


def make_trainer(N, callbacks=(), val=False, val_interval=1, **kw):
    args = dict(max_steps=N, accelerator="cpu", devices=1, logger=False, enable_checkpointing=False, enable_progress_bar=False,
                enable_model_summary=False, num_sanity_val_steps=0, callbacks=list(callbacks), inference_mode=False)
    if val:
        args.update(val_check_interval=val_interval, limit_val_batches=1)
    else:
        args.update(limit_val_batches=0)
    args.update(kw)
    return pl.Trainer(**args)


def solver_run(kinds, weights, optname, N, val_kinds=(), val_interval=1, extra_callbacks=(), ckpt_path=None, world=None, snap_model=None):
    """training through the Solver; returns per-step snapshots, recorded iteration indices, the world"""
    w = world or World()
    iters = []
    conds = [w.make(k, wt, iters) for k, wt in zip(kinds, weights)]
    vconds = [w.make(k) for k in val_kinds]
    named = learnables(conds)
    o = OPTS[optname]
    # arguments that are empty are left to the constructor's defaults (several settings live in one process)
    kw = {}
    if o["args"]:
        kw["optimizer_args"] = dict(o["args"])
    if "sched" in o:
        kw.update(scheduler_class=o["sched"], scheduler_args=dict(o["sargs"]), scheduler_frequency=o["freq"])
    setting = tp.solver.OptimizerSetting(o["cls"], o["lr"], **kw)
    solver = tp.solver.Solver(conds, val_conditions=vconds, optimizer_setting=setting)
    rec = StepRecorder(named, model=snap_model if snap_model is not None else w.model)
    w.sd_snaps = rec.sd_snaps
    tr = make_trainer(N, callbacks=[rec] + list(extra_callbacks), val=bool(val_kinds), val_interval=val_interval)
    with Seam(budget=100000):
        tr.fit(solver, ckpt_path=ckpt_path)
    handed = [p for g in tr.optimizers[0].param_groups for p in g["params"]]
    return rec.snaps, rec.osnaps, iters, named, handed, w


def compare(a, b, rtol=1e-6):
    """-> (None if equal within rtol else description, bit_equal?)"""
    bit = True
    for k in a:
        if k not in b:
            return "tensor %s missing" % k, False
        x, y = a[k], b[k]
        if isinstance(x, dict):
            for kk in x:
                if kk not in y:
                    return "optimizer state %s.%s missing" % (k, kk), False
                xv, yv = x[kk], y[kk]
                if isinstance(xv, torch.Tensor):
                    if xv.shape != yv.shape or not torch.allclose(xv, yv, rtol=rtol, atol=1e-9):
                        return "optimizer state %s.%s differs (max %.3g)" % (k, kk, float((xv - yv).abs().max()) if xv.shape == yv.shape else -1), False
                    bit &= bool(torch.equal(xv, yv))
                elif xv != yv:
                    return "optimizer state %s.%s: %s vs %s" % (k, kk, xv, yv), False
            if set(y) - set(x):
                return "optimizer state %s has extra entries %s" % (k, sorted(set(y) - set(x))), False
            continue
        if x.shape != y.shape or not torch.allclose(x, y, rtol=rtol, atol=1e-9):
            return "%s differs: %s vs %s" % (k, x.reshape(-1)[:3].tolist(), y.reshape(-1)[:3].tolist()), False
        bit &= bool(torch.equal(x, y))
    return None, bit
