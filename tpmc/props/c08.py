"""C08 -- models are row-wise functions of named variables."""
import itertools
import numpy as np
import torch
import torch.nn as nn
import torchphysics as tp
from torchphysics.problem.spaces import Points, Space

from ..ref import lattice as L
from ..ref import build as Bd

PROP = "C08"
LEVEL = "model_checking"
TECHNIQUE = ("bounded-exhaustive enumeration of architectures x hyper-parameters x input spaces (<=3 variables of dims 1-2 in ALL "
             "orders) x output dims x batch arrangements; outputs compared across variable permutations, row subsets/"
             "permutations/re-arrangements and with hand-composed Sequential/Parallel references")
RULE = ("architectures {FCN, Harmonic_FCN, Polynomial_FCN(+res), QRES, DeepRitzNet, NormalizationLayer, Sequential, Parallel "
        "(overlapping / disjoint inputs), Sequential(Parallel, FCN)} x hidden in {(3,),(3,2)} x all ordered input spaces of "
        "<= 3 variables x output dim {1,2}; for each: every permutation of the presented variable order, rows alone, permuted "
        "rows, batch shapes (6,), (2,3), (3,2,1); distinct by (architecture, input space, output dim)")
ASSUMPTIONS = ["weights from a fixed torch.manual_seed per configuration", "outputs compared with rtol/atol 1e-6 (same float32 operations)"]
BOUNDS = {"quick": {"max_vars": 3, "names": ["x", "t", "p"], "hidden": [[3], [3, 2]]},
          "thorough": {"max_vars": 4, "names": ["x", "t", "p", "y"], "hidden": [[3], [3, 2], [4, 3, 2], [1], [2, 1, 1]]}}
ITEM_LIMIT = {"quick": 900, "thorough": 3600}

VARS = {"x": 2, "t": 1, "p": 1, "y": 2}
ARCHS = ["FCN", "Harmonic_FCN", "Polynomial_FCN", "Polynomial_FCN_res", "Polynomial_FCN_res_narrow", "QRES", "DeepRitzNet", "NormalizationLayer",
         "Sequential(Norm,FCN)", "Sequential(Norm,FCN)-reordered", "Sequential(FCN,FCN)-reordered", "Parallel(FCN,QRES)-overlap",
         "Parallel(FCN,QRES)-disjoint", "Sequential(Parallel,FCN)"]


def items(tier):
    out = []
    for arch in ARCHS:
        for k in range(1, BOUNDS[tier]["max_vars"] + 1):
            for sel in itertools.permutations(BOUNDS[tier]["names"], k):
                out.append({"name": "%s|%s" % (arch, "".join(sel)), "arch": arch, "space": list(sel), "tier": tier, "cost": k})
    return out


def build(arch, in_space, out_dim, hidden, seed):
    torch.manual_seed(seed)
    M = tp.models
    isp = Space({v: VARS[v] for v in in_space})
    osp = Space({"u": out_dim})
    if arch == "FCN":
        return M.FCN(isp, osp, hidden=hidden)
    if arch == "Harmonic_FCN":
        return M.Harmonic_FCN(isp, osp, max_frequenz=2, hidden=hidden)
    if arch == "Polynomial_FCN":
        return M.Polynomial_FCN(isp, osp, polynomial_degree=2, hidden=hidden)
    if arch == "Polynomial_FCN_res":
        return M.Polynomial_FCN(isp, osp, polynomial_degree=2, hidden=[3, 3, 3], res_connection=True)
    if arch == "Polynomial_FCN_res_narrow":
        return M.Polynomial_FCN(isp, osp, polynomial_degree=2, hidden=[1, 1, 1], res_connection=True)     # width-1 residual layers
    if arch == "Sequential(Norm,FCN)-reordered":
        # the second stage lists the same variables in the opposite order
        rsp = Space({v: VARS[v] for v in in_space[::-1]})
        return M.Sequential(M.NormalizationLayer(domain_for(in_space)), M.FCN(rsp, osp, hidden=hidden))
    if arch == "Sequential(FCN,FCN)-reordered":
        m1 = M.FCN(isp, Space({"a": 2, "b": 1}), hidden=hidden)
        m2 = M.FCN(Space({"b": 1, "a": 2}), osp, hidden=hidden)
        return M.Sequential(m1, m2)
    if arch == "QRES":
        return M.QRES(isp, osp, hidden=hidden)
    if arch == "DeepRitzNet":
        return M.DeepRitzNet(isp, osp, width=3, depth=len(hidden))
    if arch == "NormalizationLayer":
        return M.NormalizationLayer(domain_for(in_space))
    if arch == "Sequential(Norm,FCN)":
        return M.Sequential(M.NormalizationLayer(domain_for(in_space)), M.FCN(isp, osp, hidden=hidden))
    if arch.startswith("Parallel"):
        a_vars, b_vars = split_vars(in_space, arch.endswith("overlap"))
        m1 = M.FCN(Space({v: VARS[v] for v in a_vars}), Space({"u": out_dim}), hidden=hidden)
        m2 = M.QRES(Space({v: VARS[v] for v in b_vars}), Space({"w": 1}), hidden=hidden)
        return M.Parallel(m1, m2)
    if arch == "Sequential(Parallel,FCN)":
        a_vars, b_vars = split_vars(in_space, True)
        m1 = M.FCN(Space({v: VARS[v] for v in a_vars}), Space({"a": 2}), hidden=hidden)
        m2 = M.FCN(Space({v: VARS[v] for v in b_vars}), Space({"b": 1}), hidden=hidden)
        par = M.Parallel(m1, m2)
        return M.Sequential(par, M.FCN(par.output_space, osp, hidden=hidden))
    raise ValueError(arch)


def split_vars(in_space, overlap):
    if len(in_space) == 1:
        return list(in_space), list(in_space)
    if overlap and len(in_space) >= 3:
        # PARTIAL overlap: the parts share the middle variable(s), each brings one the other does not have
        return list(in_space[:-1]), list(in_space[1:][::-1])
    if overlap:
        return list(in_space), list(in_space[::-1][:max(1, len(in_space) - 1)])
    return list(in_space[:1]), list(in_space[1:])


def domain_for(in_space):
    """a product domain over the variables with non-trivial, different boxes"""
    doms = []
    for i, v in enumerate(in_space):
        if VARS[v] == 2:
            doms.append(tp.domains.Parallelogram(Space({v: 2}), [-1.0 + i, 0.5], [2.0 + i, 0.5], [-1.0 + i, 2.0]))
        else:
            doms.append(tp.domains.Interval(Space({v: 1}), -0.5 - i, 2.0 + i))
    D = doms[0]
    for d in doms[1:]:
        D = D * d
    return D


def data(in_space, shape):
    n = int(np.prod(shape))
    out = {}
    c = 0
    for v in in_space:
        d = VARS[v]
        vals = np.array([[((0.37 * (r + 1) + 0.21 * (c + j + 1) + 0.113 * (r + 1) * (c + j + 1)) % 2.0) - 0.7 for j in range(d)] for r in range(n)])
        out[v] = torch.tensor(vals.reshape(tuple(shape) + (d,)), dtype=torch.float32)
        c += d
    return out


def pts(coords, order):
    return Points(torch.cat([coords[v] for v in order], -1), Space({v: VARS[v] for v in order}))


def run_item(item):
    arch, in_space, tier = item["arch"], item["space"], item["tier"]
    res = {"evals": 0, "transitions": 0, "states": [], "outcomes": [], "violations": [], "rejected": 0, "samples": []}
    seen = set()

    def viol(key, what, detail=None):
        if key in seen:
            return
        seen.add(key)
        res["violations"].append({"key": key, "what": "%s on input space %s: %s" % (arch, in_space, what), "detail": detail or {"item": item["name"]}})

    hiddens = BOUNDS[tier]["hidden"]
    out_dims = (1, 2) if arch != "NormalizationLayer" else (0,)
    for hidden in (hiddens if arch not in ("NormalizationLayer", "Polynomial_FCN_res", "Polynomial_FCN_res_narrow") else hiddens[:1]):
        for od in out_dims:
            st = "%s|%s|hidden=%s|out=%d" % (arch, in_space, hidden, od)
            res["states"].append(st)
            try:
                model = build(arch, in_space, od, hidden, seed=hash((arch, tuple(in_space), od, len(hidden))) % 10007)
            except Exception as e:
                viol("C08|error|%s|build" % type(e).__name__, "building raised %s: %s" % (type(e).__name__, str(e)[:120]))
                continue
            model.eval()
            order0 = list(model.input_space.keys())
            coords = data(order0, (6,))
            res["transitions"] += 1
            res["evals"] += 1
            try:
                ref = model(pts(coords, order0)).as_tensor.detach()
            except Exception as e:
                viol("C08|error|%s|forward" % type(e).__name__, "forward raised %s: %s" % (type(e).__name__, str(e)[:120]))
                continue
            ok = True
            # (1) variable order
            for perm in itertools.permutations(order0):
                res["evals"] += 1
                try:
                    out = model(pts(coords, list(perm))).as_tensor.detach()
                except Exception as e:
                    viol("C08|error|%s|permuted-input" % type(e).__name__, "variables presented as %s raised %s: %s" % (list(perm), type(e).__name__, str(e)[:100]))
                    ok = False
                    continue
                if out.shape != ref.shape or not torch.allclose(out, ref, rtol=2e-5, atol=2e-6):
                    viol("C08|variable-order|%s" % arch.split("(")[0], "presenting the same data with variables ordered %s instead of %s changes the output (row 0: %s vs %s)" % (
                        list(perm), order0, out[0].tolist() if out.shape == ref.shape else tuple(out.shape), ref[0].tolist()))
                    ok = False
            # (1b) missing / extra variable is rejected
            if len(order0) > 1:
                sub = order0[1:]
                try:
                    model(pts(coords, sub))
                    viol("C08|missing-variable-accepted|%s" % arch.split("(")[0], "input without variable %s was accepted" % order0[0])
                    ok = False
                except Exception:
                    pass
            cz = dict(coords)
            cz["zz"] = torch.zeros(6, 1)
            try:
                VARS["zz"] = 1
                model(pts(cz, order0[:-1] + ["zz"]))
                viol("C08|wrong-variable-accepted|%s" % arch.split("(")[0], "input with variable zz in place of %s was accepted" % order0[-1])
                ok = False
            except Exception:
                pass
            finally:
                VARS.pop("zz", None)
            # (2) rows
            for r in range(6):
                one = {v: coords[v][r:r + 1] for v in order0}
                res["evals"] += 1
                try:
                    o1 = model(pts(one, order0)).as_tensor.detach()
                    if not torch.allclose(o1, ref[r:r + 1], rtol=2e-5, atol=2e-6):
                        viol("C08|row-dependence|%s" % arch.split("(")[0], "row %d evaluated alone gives %s, inside the batch of 6 it gives %s" % (r, o1.tolist(), ref[r:r + 1].tolist()))
                        ok = False
                        break
                except Exception as e:
                    viol("C08|error|%s|single-row" % type(e).__name__, "a batch of one row raised %s: %s" % (type(e).__name__, str(e)[:100]))
                    ok = False
                    break
            perm_rows = torch.tensor([3, 0, 5, 1, 4, 2])
            try:
                op = model(pts({v: coords[v][perm_rows] for v in order0}, order0)).as_tensor.detach()
                if not torch.allclose(op, ref[perm_rows], rtol=2e-5, atol=2e-6):
                    viol("C08|row-permutation|%s" % arch.split("(")[0], "permuting the rows of the batch does not permute the outputs")
                    ok = False
            except Exception as e:
                viol("C08|error|%s|permuted-rows" % type(e).__name__, "permuted rows raised %s" % type(e).__name__)
            for shape in ((2, 3), (3, 2, 1)):
                cs = {v: coords[v].reshape(tuple(shape) + (VARS[v],)) for v in order0}
                res["evals"] += 1
                try:
                    o2 = model(pts(cs, order0)).as_tensor.detach()
                except Exception as e:
                    # a composition accepts every batch its parts accept (the parts alone are asked first)
                    if arch.startswith(("Parallel", "Sequential")) and hasattr(model, "models"):
                        try:
                            first = model.models[0]
                            parts_ok = True
                            for part in (model.models if arch.startswith("Parallel") else [first]):
                                part(pts(cs, order0))
                        except Exception:
                            parts_ok = False
                        if parts_ok:
                            viol("C08|error|%s|batch-arrangement|%s" % (type(e).__name__, arch.split("(")[0]),
                                 "batch shape %s is accepted by the parts but the composition raised %s: %s" % (shape, type(e).__name__, str(e)[:100]))
                            ok = False
                            continue
                    res["rejected"] += 1      # batch arrangement not accepted by this architecture
                    continue
                if tuple(o2.shape[:-1]) != tuple(shape) or not torch.allclose(o2.reshape(6, -1), ref, rtol=2e-5, atol=2e-6):
                    viol("C08|batch-arrangement|%s" % arch.split("(")[0], "arranging the 6 rows as batch shape %s gives output shape %s / other values" % (shape, tuple(o2.shape)))
                    ok = False
            # (3) compositions
            try:
                if arch.startswith("Sequential"):
                    m1, m2 = model.models[0], model.models[1]
                    exp = m2(m1(pts(coords, order0))).as_tensor.detach()
                    if not torch.allclose(exp, ref, rtol=2e-5, atol=2e-6):
                        viol("C08|sequential-not-composition", "Sequential(m1, m2)(x) differs from m2(m1(x))")
                        ok = False
                if arch.startswith("Parallel"):
                    parts = []
                    for m in model.models:
                        own = list(m.input_space.keys())
                        parts.append(m(pts(coords, own)).as_tensor.detach())
                    exp = torch.cat(parts, -1)
                    names = [k for m in model.models for k in m.output_space.keys()]
                    if list(model.output_space.keys()) != names or not torch.allclose(exp, ref, rtol=2e-5, atol=2e-6):
                        viol("C08|parallel-not-join", "Parallel(m1, m2)(x) differs from the join of m_i evaluated on their own variables")
                        ok = False
                if arch == "NormalizationLayer":
                    D = domain_for(order0)
                    box = torch.as_tensor(D.bounding_box()).reshape(-1, 2)
                    x = pts(coords, order0).as_tensor
                    exp = 2 * (x - box[:, 0]) / (box[:, 1] - box[:, 0]) - 1
                    if not torch.allclose(exp, ref, rtol=1e-5, atol=1e-5):
                        viol("C08|normalization-not-affine-box-map", "NormalizationLayer output differs from the affine map of the bounding box onto [-1,1]^d")
                        ok = False
            except Exception as e:
                viol("C08|error|%s|composition" % type(e).__name__, "composition reference raised %s: %s" % (type(e).__name__, str(e)[:100]))
            if ok:
                res["outcomes"].append(st)
    res["samples"] = [{"arch": arch, "space": in_space}]
    return res
