"""C19 -- checkpoints and saved weights restore training exactly."""
import itertools
import os
import shutil
import tempfile
import torch
import torchphysics as tp

from . import train_common as T
from torchphysics.problem.spaces import Points, Space

PROP = "C19"
LEVEL = "model_checking"
TECHNIQUE = ("exhaustive enumeration of crash points: for every configuration, check interval and EVERY interruption step j < N the "
             "run is stopped at j, a fresh identical world is resumed from the checkpoint file on disk and trained to N; final "
             "learnable and optimizer state compared bit for bit with the uninterrupted run; weight files loaded into fresh models")
RULE = ("configurations: subsets of {static PINN, boundary, parameter penalty, PINN with inverse parameter, adaptive weights, "
        "2-batch data condition, PIDeepONet} x optimizers {sgd+momentum, adam, adam+StepLR, sgd+StepLR(frequency 2)} x N in {3..5} x "
        "check interval c in {1,2,3} x every crash step j in 1..N-1; WeightSaveCallback: intervals {-1,1,2} x initial/final flags; "
        "distinct by (configuration, N, c, j)")
ASSUMPTIONS = ["deterministic samplers only (grids, data loaders without shuffling), as the property states",
               "torn writes of the checkpoint file are Lightning's business and are not enumerated",
               "files are written below a per-item temporary directory that is removed afterwards"]
BOUNDS = {"quick": {"N": [3, 5], "intervals": [1, 2, 3]}, "thorough": {"N": [3, 4, 5, 6, 7, 8], "intervals": [1, 2, 3, 4]}}
ITEM_LIMIT = {"quick": 1200, "thorough": 3600}

CONFIGS = [["pinn_static"], ["pinn_static", "boundary"], ["pinn_param", "param_penalty"], ["adaptive_w", "pinn_static"],
           ["data2"], ["data2", "pinn_param"], ["pideeponet"], ["pideeponet", "pinn_static", "param_penalty"], ["qres", "boundary"]]
OPTS = ["sgd_momentum", "adam", "adam_steplr", "sgd_steplr_f2"]


def items(tier):
    out = []
    for kinds in CONFIGS:
        for opt in OPTS:
            out.append({"name": "resume|%s|%s" % ("+".join(kinds), opt), "fam": "resume", "kinds": kinds, "opt": opt, "tier": tier, "cost": 5})
    for kinds in (["pinn_static", "boundary"], ["pinn_param", "param_penalty"], ["qres", "boundary"], ["ritznet"], ["fno_data"]):
        out.append({"name": "weights|%s" % "+".join(kinds), "fam": "weights", "kinds": kinds, "tier": tier, "cost": 3})
    return out


def run_item(item):
    res = {"evals": 0, "transitions": 0, "states": [], "outcomes": [], "violations": [], "rejected": 0, "samples": [], "traces": 0,
           "extra": {"crash_points": 0}}
    seen = set()

    def viol(key, what):
        if key in seen:
            return
        seen.add(key)
        res["violations"].append({"key": key, "what": "%s: %s" % (item["name"], what), "detail": {"item": item["name"]}})
    tmp = tempfile.mkdtemp(prefix="tpmc_c19_", dir=os.environ.get("TMPDIR"))
    try:
        if item["fam"] == "resume":
            resume(item, res, viol, tmp)
        else:
            weights(item, res, viol, tmp)
    finally:
        shutil.rmtree(tmp, ignore_errors=True)
    res["samples"] = [{"case": item["name"], "crash_points": res["extra"]["crash_points"]}]
    return res


def resume(item, res, viol, tmp):
    kinds, opt, tier = item["kinds"], item["opt"], item["tier"]
    wts = [1.0, 0.5, 2.0][:len(kinds)]
    has_data = "data2" in kinds
    for N in BOUNDS[tier]["N"]:
        try:
            full = T.solver_run(kinds, wts, opt, N)
        except Exception as e:
            viol("C19|error|%s|uninterrupted" % type(e).__name__, "uninterrupted run raised %s: %s" % (type(e).__name__, str(e)[:120]))
            return
        full_state, full_opt = full[0][-1], full[1][-1]
        for c in BOUNDS[tier]["intervals"]:
            for j in range(1, N):
                cfg = "N=%d check_interval=%d crash_after_step=%d" % (N, c, j)
                res["states"].append(item["name"] + "|" + cfg)
                res["extra"]["crash_points"] += 1
                path = os.path.join(tmp, "ck")
                shutil.rmtree(path, ignore_errors=True)
                os.makedirs(path)
                try:
                    cb = tp.utils.TrainerStateCheckpoint(path, "state", check_interval=c)
                    T.solver_run(kinds, wts, opt, j, extra_callbacks=[cb])
                    ck = os.path.join(path, "state.ckpt")
                    if not os.path.exists(ck):
                        viol("C19|no-checkpoint-file", "%s: no checkpoint file was written" % cfg)
                        continue
                    saved_step = int(torch.load(ck, weights_only=False)["global_step"])
                    exp_step = ((j - 1) // c) * c + 1
                    if saved_step != exp_step:
                        viol("C19|checkpoint-step", "%s: the file holds step %d, expected the last checked step %d" % (cfg, saved_step, exp_step))
                    snaps, osnaps, iters, named, handed, w = T.solver_run(kinds, wts, opt, N, ckpt_path=ck)
                except Exception as e:
                    viol("C19|error|%s|resume" % type(e).__name__, "%s raised %s: %s" % (cfg, type(e).__name__, str(e)[:160]))
                    continue
                res["evals"] += 2
                res["traces"] += 1
                res["transitions"] += N
                if not snaps:
                    viol("C19|resume-made-no-step", "%s: the resumed run made no optimisation step" % cfg)
                    continue
                bad, bit = T.compare(full_state, snaps[-1], rtol=0.0)
                if bad:
                    viol("C19|resumed-state-differs|data-iterator" if has_data else "C19|resumed-state-differs|deterministic-samplers|%s" % item["opt"],
                         "%s: resumed from the checkpoint of step %d and trained to %d: %s" % (cfg, saved_step, N, bad))
                    continue
                bad, _ = T.compare(full_opt[0], osnaps[-1][0], rtol=0.0)
                if bad:
                    viol("C19|resumed-optimizer-state-differs|%s" % item["opt"], "%s: %s" % (cfg, bad))
                    continue
                if full_opt[1] != osnaps[-1][1]:
                    viol("C19|resumed-learning-rate-differs|%s" % item["opt"], "%s: learning rate %s, uninterrupted %s" % (cfg, osnaps[-1][1], full_opt[1]))
                    continue
                res["outcomes"].append(item["name"] + "|" + cfg)


def weights(item, res, viol, tmp):
    kinds = item["kinds"]
    wts = [1.0, 0.5][:len(kinds)]
    N = 5
    for interval, init, final in itertools.product((-1, 1, 2), (False, True), (False, True)):
        cfg = "check_interval=%d save_initial=%s save_final=%s" % (interval, init, final)
        res["states"].append(item["name"] + "|" + cfg)
        path = os.path.join(tmp, "w")
        shutil.rmtree(path, ignore_errors=True)
        os.makedirs(path)
        w0 = T.World()
        mdl = (lambda w_: w_.model3) if "qres" in kinds else ((lambda w_: w_.model4) if "ritznet" in kinds else (
            (lambda w_: w_.model5) if "fno_data" in kinds else (lambda w_: w_.model)))
        probe = Points(torch.linspace(0.05, 0.95, 7).reshape(-1, 1), T.X)
        if "fno_data" in kinds:
            probe = Points(torch.cos(torch.linspace(0, 2, 12)).reshape(2, 6, 1), Space({"f": 1}))
        before = {k: v.clone() for k, v in mdl(w0).state_dict().items()}
        def eval_out(m_):
            """outputs in EVALUATION mode (running statistics of normalisation layers are used), mode restored afterwards"""
            was = m_.training
            m_.eval()
            with torch.no_grad():
                o_ = m_(probe).as_tensor.clone()
            m_.train(was)
            return o_
        out_before = eval_out(mdl(w0))
        try:
            cb = tp.utils.WeightSaveCallback(mdl(w0), path, "net", check_interval=interval, save_initial_model=init, save_final_model=final)
            snaps, osnaps, iters, named, handed, w = T.solver_run(kinds, wts, "adam", N, extra_callbacks=[cb], world=w0, snap_model=mdl(w0))
        except Exception as e:
            viol("C19|error|%s|weight-callback" % type(e).__name__, "%s raised %s: %s" % (cfg, type(e).__name__, str(e)[:120]))
            continue
        res["evals"] += 1
        res["transitions"] += N
        after = {k: v.clone() for k, v in mdl(w).state_dict().items()}
        out_after = eval_out(mdl(w))
        per_step = w.sd_snaps          # full state dicts of the model after every step
        ok = True
        for fname, want, expect, out_expect in (("net_init.pt", init, before, out_before), ("net_final.pt", final, after, out_after)):
            fp = os.path.join(path, fname)
            if os.path.exists(fp) != want:
                viol("C19|weight-file-presence|%s" % fname, "%s: file %s %s" % (cfg, fname, "missing" if want else "written although switched off"))
                ok = False
                continue
            if want:
                fresh = mdl(T.World(seed=999))            # identical architecture, ANOTHER random initialisation
                try:
                    fresh.load_state_dict(torch.load(fp))
                except Exception as e:
                    viol("C19|weight-file-load|%s" % fname, "%s: %s does not load into a fresh identical model: %s" % (cfg, fname, str(e)[:100]))
                    ok = False
                    continue
                for k in expect:
                    if not torch.equal(fresh.state_dict()[k], expect[k]):
                        viol("C19|weight-file-content|%s" % fname, "%s: %s does not reproduce the model %s training (tensor %s)" % (
                            cfg, fname, "before" if "init" in fname else "after", k))
                        ok = False
                        break
                # ... and the loaded model IS that model: same outputs (state that is not in the file would show here)
                got = eval_out(fresh)
                if ok and not torch.equal(got, out_expect):
                    viol("C19|weight-file-outputs|%s" % fname, "%s: a freshly built model (other random initialisation) loaded from %s gives other outputs than the model %s training (max difference %.3g)" % (
                        cfg, fname, "before" if "init" in fname else "after", float((got - out_expect).abs().max())))
                    ok = False
        fp = os.path.join(path, "net_min_loss.pt")
        if interval > 0:
            if not os.path.exists(fp):
                viol("C19|min-loss-file-missing", "%s: no minimal-loss file although steps were checked" % cfg)
                ok = False
            else:
                sd = torch.load(fp)
                checked = [k for k in range(1, N) if (k - 1) % interval == 0]       # weights after step k are checked at the start of batch k
                fresh = mdl(T.World(seed=999))
                try:
                    fresh.load_state_dict(sd)          # strict: every key of a freshly built identical model must be in the file
                except Exception as e:
                    viol("C19|weight-file-load|net_min_loss.pt", "%s: the minimal-loss file does not load into a fresh identical model: %s" % (cfg, str(e)[:120]))
                    ok = False
                    sd = None
                if sd is not None:
                    hit = [k for k in checked if set(sd) == set(per_step[k - 1]) and all(torch.equal(sd[name], per_step[k - 1][name]) for name in sd)]
                    if not hit:
                        viol("C19|min-loss-file-content", "%s: the minimal-loss file equals the weights of none of the checked steps %s" % (cfg, checked))
                        ok = False
        elif os.path.exists(fp):
            viol("C19|min-loss-file-unexpected", "%s: a minimal-loss file was written although check_interval <= 0" % cfg)
            ok = False
        if ok:
            res["outcomes"].append(item["name"] + "|" + cfg)
