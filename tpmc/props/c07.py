"""C07 -- training through the Solver equals the reference optimisation loop."""
import itertools
import numpy as np
import torch

from . import train_common as T
from ..kernel.seam import Seam
import torchphysics as tp

PROP = "C07"
LEVEL = "model_checking"
TECHNIQUE = ("exhaustive enumeration of condition subsets x weights x optimizer/scheduler settings x validation settings; every "
             "prefix (step 1..N) of every training history through the Lightning Solver is compared with a reference loop on "
             "identically built fresh objects (weights, inverse parameters, adaptive weights, optimizer state)")
RULE = ("condition menu of 8 {static PINN with laplacian, weighted boundary condition, parameter penalty, PINN with learnable "
        "parameter, adaptive point weights, 2-batch data condition, PINN on a random sampler (scripted source), PIDeepONet}: all "
        "subsets of size 1-3 (quick: all singles/pairs + every 4th triple) x weight patterns x 5 optimizer settings x N=4 steps "
        "recorded after every step x validation {none, data, static PINN} x val interval {1,2}; distinct by configuration")
ASSUMPTIONS = ["reference loop in tpmc/props/train_common.py: L = sum_i w_i c_i(iteration=step); zero_grad; backward; step; scheduler every f steps",
               "single device CPU, no precision plugins, first-order optimizers"]
BOUNDS = {"quick": {"N": 4, "triple_stride": 4}, "thorough": {"N": 8, "triple_stride": 1}}
ITEM_LIMIT = {"quick": 1200, "thorough": 3600}
WEIGHTS = [(1.0, 1.0, 1.0), (0.5, 2.0, 1.0)]


def items(tier):
    subsets = [list(s) for r in (1, 2) for s in itertools.combinations(T.MENU, r)]
    triples = [list(s) for s in itertools.combinations(T.MENU, 3)]
    subsets += triples[::BOUNDS[tier]["triple_stride"]]
    out = []
    for s in subsets:
        out.append({"name": "+".join(s), "kinds": s, "tier": tier, "cost": len(s)})
    # every ordered selection of 1..3 validation conditions with mixed gradient needs inside ONE validation step
    for r in (1, 2, 3):
        for sel in itertools.permutations(VAL_MENU, r):
            out.append({"name": "validation-mix:" + "+".join(sel), "val_mix": list(sel), "kinds": ["pinn_static"], "tier": tier, "cost": 1})
    return out


VAL_MENU = ["val_data", "val_pinn", "val_deriv"]


def run_val_mix(item, res, viol):
    """trainer.validate of a Solver with the selected validation conditions: every logged value equals the value of the same
    condition built and evaluated alone (fresh world, same initial weights), and no learnable tensor changes"""
    sel = item["val_mix"]
    expected = {}
    for k in sel:
        w0 = T.World()
        c = w0.make(k)
        with Seam(budget=100000):
            torch.set_grad_enabled(c.track_gradients is not False)
            try:
                expected[k] = float(c(device="cpu"))
            finally:
                torch.set_grad_enabled(True)
    w = T.World()
    conds = [w.make("pinn_static")]
    vconds = [w.make(k) for k in sel]
    before = {k: v.detach().clone() for k, v in w.model.state_dict().items()}
    solver = tp.solver.Solver(conds, val_conditions=vconds)
    tr = T.make_trainer(1, val=True)
    res["evals"] += 1
    try:
        with Seam(budget=100000):
            tr.validate(solver, verbose=False)
    except Exception as e:
        viol("C07|error|%s|solver|validation-mix" % type(e).__name__, "trainer.validate with validation conditions %s failed: %s" % (sel, str(e)[:200]))
        torch.set_grad_enabled(True)
        return res
    torch.set_grad_enabled(True)
    got = {k: float(v) for k, v in tr.callback_metrics.items()}
    for k in sel:
        res["transitions"] += 1
        v = got.get("val/" + k)
        if v is None or abs(v - expected[k]) > 1e-6 * max(1.0, abs(expected[k])):
            viol("C07|validation-value", "validation conditions %s: logged val/%s = %s, the condition alone gives %s" % (sel, k, v, expected[k]))
        else:
            res["outcomes"].append("%s=%.6g" % (k, v))
    after = w.model.state_dict()
    bad = [k for k in before if not torch.equal(before[k], after[k])]
    if bad:
        viol("C07|validation-changes-state", "trainer.validate with %s changed %s" % (sel, bad))
    res["states"].append("valmix:" + "+".join(sel))
    return res


def adaptive_first_step(kinds, wts, after, named, w):
    """hand computation of one SGD step for L = weight * mean_i(a_i * e_i): theta <- theta - lr dL/dtheta, a <- a + lr dL/da"""
    import torchphysics as tp
    fresh = T.World()
    xs = tp.samplers.GridSampler(fresh.dom, 4).sample_points().as_tensor
    cw = wts[kinds.index("adaptive_w")]
    lr = T.OPTS["sgd"]["lr"]
    u = fresh.model2(tp.spaces.Points(xs, T.X)).as_tensor
    e = ((u - torch.sin(3 * xs)) ** 2).sum(dim=1)
    a = torch.ones(4, requires_grad=True)
    L = cw * torch.mean(a * e)
    params = list(fresh.model2.parameters())
    grads = torch.autograd.grad(L, params + [a])
    exp_theta = [p.detach() - lr * g for p, g in zip(params, grads[:-1])]
    exp_a = a.detach() + lr * grads[-1]
    real = w.conds["adaptive_w"]
    got_a = [after[n] for n, t in named if t is real.adaptive_layer.weight]
    if not got_a or not torch.allclose(got_a[0], exp_a, rtol=1e-5, atol=1e-7):
        return "adaptive point weights after the first step are %s, ascent on the loss gives %s" % (got_a[0].tolist() if got_a else None, exp_a.tolist())
    for p_real, e_t in zip(w.model2.parameters(), exp_theta):
        got = [after[n] for n, t in named if t is p_real]
        if got and not torch.allclose(got[0], e_t, rtol=1e-5, atol=1e-7):
            return "network weights of the adaptive condition after the first step differ from plain descent on the weighted loss (max %.3g)" % float((got[0] - e_t).abs().max())
    return None


def run_item(item):
    kinds, tier = item["kinds"], item["tier"]
    N = BOUNDS[tier]["N"]
    res = {"evals": 0, "transitions": 0, "states": [], "outcomes": [], "violations": [], "rejected": 0, "samples": [], "traces": 0,
           "extra": {"bit_equal_runs": 0, "runs": 0}}
    seen = set()

    def viol(key, what):
        if key in seen:
            return
        seen.add(key)
        res["violations"].append({"key": key, "what": "%s: %s" % (item["name"], what), "detail": {"item": item["name"]}})
    if "val_mix" in item:
        return run_val_mix(item, res, viol)
    base_final = {}
    for wts in WEIGHTS:
        wts = list(wts[:len(kinds)])
        for optname in T.OPTS:
            for val_kinds, vint in (((), 1), (("val_data",), 1), (("val_pinn",), 2)):
                if val_kinds and not (optname in ("sgd", "adam_steplr")):
                    continue
                cfg = "weights=%s opt=%s val=%s/%d" % (wts, optname, list(val_kinds), vint)
                res["states"].append(item["name"] + "|" + cfg)
                try:
                    rs, ros, riters, rnamed = T.reference_run(kinds, wts, optname, N)
                except Exception as e:
                    viol("C07|error|%s|reference" % type(e).__name__, "%s: the reference loop raised %s: %s" % (cfg, type(e).__name__, str(e)[:120]))
                    continue
                try:
                    ss, sos, siters, snamed, handed, w = T.solver_run(kinds, wts, optname, N, val_kinds=val_kinds, val_interval=vint)
                except Exception as e:
                    viol("C07|error|%s|solver|%s" % (type(e).__name__, "val" if val_kinds else "train"),
                         "%s: training through the Solver raised %s: %s" % (cfg, type(e).__name__, str(e)[:160]))
                    continue
                res["evals"] += 2
                res["traces"] += 1
                res["transitions"] += 2 * N
                res["extra"]["runs"] += 1
                # inverse-problem parameters are learnable whatever Python type their initial guess had: they move
                for pk, pname, p0 in (("pinn_intparam", "K", 2.0), ("pinn_param", "D", 0.7)):
                    if pk in kinds:
                        val = float(getattr(w, pname).as_tensor.detach().reshape(-1)[0])
                        if abs(val - p0) < 1e-9:
                            viol("C07|parameter-not-trained|%s" % pname, "%s: the inverse-problem parameter %s still has its initial value %s after %d steps" % (cfg, pname, p0, N))
                # a function set shared by several DeepONet conditions is drawn ONCE per training step (every condition of
                # the step sees the same input functions), however many conditions use it
                if any(k_.startswith("pideeponet_r") for k_ in kinds) and w.drift.calls != N:
                    viol("C07|function-set-draws-per-step", "%s: the shared function set was drawn %d times in %d training steps (%d condition(s) use it)" % (
                        cfg, w.drift.calls, N, sum(k_.startswith("pideeponet_r") for k_ in kinds)))
                # every learnable tensor reachable from a training condition is optimised
                hid = {id(p) for p in handed}
                missing = [n for n, t in snamed if id(t) not in hid]
                if missing:
                    viol("C07|learnable-not-optimised|%s" % missing[0].split(".")[0], "%s: learnable tensors not handed to the optimizer: %s" % (cfg, missing))
                # iteration indices seen by the training conditions
                tr_iters = [(k, i) for k, i in siters if k in kinds]
                exp_iters = [(k, i) for i in range(N) for k in kinds]
                if tr_iters != exp_iters:
                    viol("C07|iteration-index", "%s: conditions were called with (name, iteration) %s, expected %s" % (cfg, tr_iters[:8], exp_iters[:8]))
                if len(ss) != N:
                    viol("C07|steps", "%s: %d optimisation steps were made, expected %d" % (cfg, len(ss), N))
                    continue
                ok = True
                allbit = True
                for step in range(N):
                    bad, bit = T.compare(rs[step], ss[step])
                    if bad:
                        viol("C07|state-differs|%s|%s" % (optname, "val" if val_kinds else "train"),
                             "%s: after step %d the learnable state differs from the reference loop: %s" % (cfg, step + 1, bad))
                        ok = False
                        break
                    allbit &= bit
                    bad, bit2 = T.compare(ros[step][0], sos[step][0])
                    if bad:
                        viol("C07|optimizer-state-differs|%s" % optname, "%s: after step %d: %s" % (cfg, step + 1, bad))
                        ok = False
                        break
                    if not np.allclose(ros[step][1], sos[step][1], rtol=1e-9):
                        viol("C07|learning-rate-differs|%s" % optname, "%s: after step %d the learning rate is %s, reference %s" % (cfg, step + 1, sos[step][1], ros[step][1]))
                        ok = False
                        break
                if not ok:
                    continue
                # validation never changes learnable state: compare with the run without validation
                key = (tuple(wts), optname)
                if not val_kinds:
                    base_final[key] = ss[-1]
                elif key in base_final:
                    bad, _ = T.compare(base_final[key], ss[-1], rtol=0.0)
                    if bad:
                        viol("C07|validation-changes-state", "%s: final state differs from the run without validation conditions: %s" % (cfg, bad))
                        continue
                # adaptive point weights ascend
                if "adaptive_w" in kinds and optname == "sgd":
                    aw = w.conds["adaptive_w"].adaptive_layer.weight
                    name = [n for n, t in snamed if t is aw]
                    w0 = torch.ones_like(ss[0][name[0]]) if name else None
                    if not name:
                        viol("C07|learnable-not-optimised|adaptive", "%s: the adaptive point weights are not among the learnable tensors" % cfg)
                        continue
                    if not (ss[0][name[0]] >= w0 - 1e-9).all() or not (ss[0][name[0]] > w0).any():
                        viol("C07|adaptive-weights-descend", "%s: adaptive point weights decreased in the first step: %s" % (cfg, ss[0][name[0]].tolist()))
                        continue
                # independent first step of the adaptive-weights condition (no condition class involved):
                # descent on the network, ASCENT on the point weights
                if "adaptive_w" in kinds and optname == "sgd":
                    bad = adaptive_first_step(kinds, wts, ss[0], snamed, w)
                    if bad:
                        viol("C07|adaptive-first-step", "%s: %s" % (cfg, bad))
                        continue
                res["extra"]["bit_equal_runs"] += int(allbit)
                res["outcomes"].append(item["name"] + "|" + cfg)
    res["samples"] = [{"conditions": kinds, "runs": res["extra"]["runs"]}]
    return res
