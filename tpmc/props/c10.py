"""C10 -- volume() is the true measure of the domain; density sampling yields density x measure."""
import math
import numpy as np
import torch

from ..kernel.seam import Seam, SeamBudget, explore_deviations
from ..ref import geom as G
from ..ref import build as Bd
from ..ref import lattice as L
from .geo_common import *  # noqa

PROP = "C10"
LEVEL = "model_checking"
TECHNIQUE = ("bounded-exhaustive enumeration of primitives/compositions x parameter batches x densities against closed-form "
             "measures (float64) and reference quadrature; density sampling explored under the scripted random source")
RULE = ("every primitive and primitive boundary of the shape lattice (both vertex orientations) and every composition with a "
        "stated identity (disjoint union, contained cut, independent product, translate, rotate, partial evaluation, "
        "set_volume) x parameter batches of k in 0..3 rows x densities {0.7,3,11,40}; distinct by (expression, aspect, "
        "batch/density); non-trivial when a numeric comparison was made")
ASSUMPTIONS = ["closed-form measures in tpmc/ref/geom.py; true measure of Boolean combinations by 400^2 midpoint quadrature of the reference membership",
               "expected-count tolerance for rejection-based shapes / Boolean combinations: |count - d*V| <= 0.15*d*V + 3 under the Sobol-net default"]
BOUNDS = {"quick": {"k": [0, 1, 2, 3], "densities": [0.7, 3, 11, 40]}, "thorough": {"k": [0, 1, 2, 3], "densities": [0.7, 3, 11, 40, 97]}}
ITEM_LIMIT = {"quick": 600, "thorough": 1800}

EXACT_COUNT = {"interval", "circle", "para", "sphere", "point"}          # ceil(d*V) exactly
EXACT_BOUNDARY = {"interval", "circle", "para", "tri", "sphere"}


def prims(tier):
    out = L.leaves1(tier) + L.leaves2("thorough") + L.leaves3(tier)
    out += [L.Pt([0.3, 0.4]), L.Pt([L.aff(0, t=1), 0.5])]
    # vertex orientation that flips with the parameter (mixed orientations inside one batch)
    out += [L.T([0, 0], [1, 0], [0.3, L.aff(-0.5, t=1.25)]), L.P([0, 0], [1, 0], [0.2, L.aff(-0.5, t=1.25)])]
    return L.dedupe(out)


def compositions(tier):
    out = [L.U(L.SQ, L.FAR_C, disjoint=True), L.U(L.C1, L.FAR_P, disjoint=True), L.U(L.I01, L.I_FAR, disjoint=True),
           L.Cut(L.SQ, L.IN_C, contained=True), L.Cut(L.C1, L.IN_P, contained=True), L.Cut(L.I2, L.I01, contained=True),
           L.Cut(L.SQ, L.G_CMOVE, contained=True), L.Cut(L.C_GROW, L.C([0, 0], 0.2), contained=True),
           L.U(L.SQ_MOVE, L.C([4, 4], L.aff(0.5, t=0.5)), disjoint=True),
           L.Cut(L.S1, L.IN_S, contained=True),
           L.X(L.I01, L.IT), L.X(L.C1, L.IT), L.X(L.SQ, L.I(0, 2, var="y")), L.X(L.I(0, 1, var="y"), L.I2),
           L.X(L.C([0, 0], L.aff(0.5, s=0.5)), L.IT), L.X(L.B(L.C1), L.IT), L.X(L.C2, L.B(L.IT)),
           L.Tr(L.SQ, [0.7, -0.4]), L.Tr(L.C_GROW, [L.aff(0, t=1), 1.0]), L.Tr(L.SLP, [L.aff(0, t=1), 0.5]),
           L.Tr(L.Cut(L.SQ, L.IN_C, contained=True), [L.aff(0, t=1), 0]), L.Tr(L.I_GROW, [L.aff(0, t=-1)]),
           L.Rot(L.SQ, 0.5), L.Rot(L.SLP, L.aff(0, t=1)), L.Rot(L.C_GROW, 1.0, around=[1, 0]), L.Rot(L.TSL, 2.3),
           L.Rot(L.U(L.SQ, L.FAR_C, disjoint=True), L.aff(0, t=1)),
           L.B(L.Tr(L.SLP, [L.aff(0, t=1), 0.5])), L.B(L.Rot(L.SQ_GROW, 0.5)),
           L.B(L.U(L.SQ, L.FAR_C, disjoint=True)), L.B(L.Cut(L.SQ, L.IN_C, contained=True)),
           L.U(L.Cut(L.SQ, L.IN_C, contained=True), L.FAR_C, disjoint=True),
           L.Cut(L.U(L.SQ, L.FAR_C, disjoint=True), L.IN_C, contained=True)]
    if tier == "thorough":
        out += [L.X(L.X(L.I(0, 1, var="y"), L.I01), L.IT), L.Tr(L.Rot(L.SQ, 0.5), [1, 1]), L.Rot(L.Tr(L.SLP_CW, [1, 1]), 0.5),
                L.X(L.Cut(L.SQ, L.IN_C, contained=True), L.IT), L.X(L.Tr(L.SQ, [0.5, 0.5]), L.IT),
                L.U(L.Tr(L.SQ, [5, 5]), L.C_GROW, disjoint=True), L.Cut(L.SQ_CW, L.IN_C, contained=True),
                L.U(L.TCW, L.FAR_C, disjoint=True)]
    return out


def density_exprs(tier):
    out = prims(tier) + [L.B(a) for a in prims(tier) if a["k"] != "point"]
    out += L.booleans2("quick") + L.booleans1(tier) + [L.B(x) for x in L.booleans2("quick")[:12]]
    out += [L.Tr(L.SQ, [0.7, -0.4]), L.Rot(L.SLP, 0.5), L.Tr(L.Cut(L.SQ, L.IN_C, contained=True), [L.aff(0, t=1), 0]),
            L.X(L.I01, L.IT), L.X(L.C1, L.IT)]
    # two unit squares overlapping with COLLINEAR top and bottom edges (an L-/bar-shape assembled from rectangles): pieces of
    # both operand boundaries coincide and lie on the boundary of the union
    out += [ALIGNED_U, L.B(ALIGNED_U)]
    return L.dedupe(out)


ALIGNED_U = L.U(L.SQ, L.P([0.5, 0.0], [1.5, 0.0], [0.5, 1.0]))


def items(tier):
    out = []
    for a in prims(tier):
        out.append({"name": "prim|" + G.show(a), "ast": a, "aspect": "volume", "tier": tier})
        if a["k"] != "point":
            out.append({"name": "prim|" + G.show(L.B(a)), "ast": L.B(a), "aspect": "volume", "tier": tier})
    out += [{"name": "prim|" + G.show(x), "ast": x, "aspect": "volume", "tier": tier}
            for x in (L.BL(L.I_MOVE), L.BR(L.I_GROW))]
    for a in compositions(tier):
        out.append({"name": "comp|" + G.show(a), "ast": a, "aspect": "compose", "tier": tier})
    for a in density_exprs(tier):
        out.append({"name": "dens|" + G.show(a), "ast": a, "aspect": "density", "tier": tier})
    out.append({"name": "tensor-arguments", "aspect": "tensorargs", "tier": tier, "ast": None})
    for shape in ("tetra", "box"):
        for winding in ("out", "in"):
            for source in ("arrays", "file"):
                out.append({"name": "trimesh|%s|%s|%s" % (shape, winding, source), "aspect": "trimesh", "shape": shape, "winding": winding,
                            "source": source, "tier": tier, "ast": None})
    return out


def _vol(D, prm):
    v = D.volume(prm) if not prm.isempty else D.volume()
    return torch.as_tensor(v)


def run_trimesh(item):
    """TrimeshPolyhedron (a primitive whose vertex orientation and construction path vary): volume, surface, box,
    membership, sample membership and density counts against the convex-polyhedron reference (tpmc/ref/poly3d.py).
    trimesh draws from numpy's global generator, which is seeded (not enumerated) here."""
    import os, shutil, tempfile
    from ..ref import poly3d as P3
    res = {"evals": 0, "transitions": 0, "states": [], "outcomes": [], "violations": [], "rejected": 0, "samples": []}
    name = item["name"]
    seen = set()

    def viol(key, what):
        if key in seen:
            return
        seen.add(key)
        res["violations"].append({"key": key, "what": "%s: %s" % (name, what), "detail": {"item": name}})
    v, f = P3.SHAPES[item["shape"]]
    tmp = tempfile.mkdtemp(prefix="tpmc_c10_", dir=os.environ.get("TMPDIR"))
    try:
        try:
            D = P3.build(item["shape"], item["winding"], item["source"], tmp)
        except Exception as e:
            viol("C10|error|%s|trimesh-constructor" % type(e).__name__, "constructor raised %s: %s" % (type(e).__name__, str(e)[:120]))
            return res
        res["states"].append(name)
        V, A = P3.volume(v, f), P3.area(v, f)
        got = float(torch.as_tensor(D.volume()).reshape(-1)[0])
        gotb = float(torch.as_tensor(D.boundary.volume()).reshape(-1)[0])
        res["evals"] += 2
        if not (got > 0) or abs(got - V) > 1e-5 * V:
            viol("C10|volume-value|trimesh", "volume() = %.6f, true volume %.6f" % (got, V))
        elif abs(gotb - A) > 1e-5 * A:
            viol("C10|volume-value|trimesh-boundary", "boundary volume() = %.6f, true surface area %.6f" % (gotb, A))
        else:
            res["outcomes"].append(name + "|volume")
        bx = torch.as_tensor(D.bounding_box()).double().numpy().reshape(-1, 2)
        if not np.allclose(bx, P3.box(v), atol=1e-6):
            viol("C10|trimesh-box", "bounding_box() = %s, exact %s" % (bx.tolist(), P3.box(v).tolist()))
        # membership on a lattice (points farther than 1e-3 from the surface)
        b = P3.box(v)
        ax = [np.linspace(b[i, 0] - 0.2, b[i, 1] + 0.2, 9) for i in range(3)]
        Q = np.stack(np.meshgrid(*ax, indexing="ij"), -1).reshape(-1, 3)
        sd = P3.sdf_bound(v, f, Q)
        lib = (torch.as_tensor(D._contains(Points(torch.tensor(Q, dtype=torch.float32), D.space))).reshape(-1) != 0).numpy()
        res["evals"] += len(Q)
        badm = np.where(((sd < -1e-3) & ~lib) | ((sd > 1e-3) & lib))[0]
        if len(badm):
            viol("C10|trimesh-membership", "%d lattice points are misclassified, e.g. %s (reference signed distance %.3f)" % (len(badm), Q[badm[0]].tolist(), sd[badm[0]]))
        # samples and density counts
        for d in BOUNDS[item["tier"]]["densities"]:
            for which, Dx, meas in (("solid", D, V), ("boundary", D.boundary, A)):
                for mode in ("random", "grid"):
                    np.random.seed(1234)
                    res["transitions"] += 1
                    res["evals"] += 1
                    st = "%s|%s|%s|d=%g" % (name, which, mode, d)
                    res["states"].append(st)
                    try:
                        with Seam():
                            S = Dx.sample_random_uniform(d=d) if mode == "random" else Dx.sample_grid(d=d)
                    except Exception as e:
                        if not is_deliberate(e):
                            viol("C10|error|%s|trimesh-density-%s" % (type(e).__name__, mode), "%s sampling with d=%g raised %s: %s" % (mode, d, type(e).__name__, str(e)[:100]))
                        continue
                    pts = S.as_tensor.double().numpy()
                    sdp = P3.sdf_bound(v, f, pts)
                    if which == "solid" and (sdp > 1e-4).any():
                        viol("C10|trimesh-sample-outside", "%s %s sample with d=%g: %d points outside the polyhedron" % (which, mode, d, int((sdp > 1e-4).sum())))
                        continue
                    if which == "boundary" and (np.abs(sdp) > 1e-4).any():
                        viol("C10|trimesh-sample-off-surface", "%s %s sample with d=%g: %d points off the surface" % (which, mode, d, int((np.abs(sdp) > 1e-4).sum())))
                        continue
                    want = int(math.ceil(float(np.float32(d) * np.float32(meas))))
                    if len(pts) != want:
                        viol("C10|density-count|trimesh-%s" % which, "%s %s sampling with d=%g returned %d points, ceil(d*measure)=ceil(%g*%.5f)=%d" % (which, mode, d, len(pts), d, meas, want))
                    else:
                        res["outcomes"].append(st)
    finally:
        shutil.rmtree(tmp, ignore_errors=True)
    res["samples"] = [{"trimesh": name}]
    return res


def run_tensorargs(item):
    """primitives whose shape parameters are given as torch TENSORS (the library keeps them): every observation is repeated
    and interleaved -- volume, box, sampling, volume again -- and must stay what the same domain built from numbers gives"""
    import torchphysics as tp
    from torchphysics.problem.spaces import Space
    res = {"evals": 0, "transitions": 0, "states": [], "outcomes": [], "violations": [], "rejected": 0, "samples": []}
    seen = set()

    def viol(key, what):
        if key in seen:
            return
        seen.add(key)
        res["violations"].append({"key": key, "what": what, "detail": {"item": item["name"]}})
    T = torch.tensor
    X1, X2, X3 = Space({"x": 1}), Space({"x": 2}), Space({"x": 3})
    cases = [
        ("Interval[1,3]", lambda f: tp.domains.Interval(X1, f(1.0), f(3.0)), L.I(1.0, 3.0)),
        ("Interval[-2,-0.5]", lambda f: tp.domains.Interval(X1, f(-2.0), f(-0.5)), L.I(-2.0, -0.5)),
        ("Circle((0.4,-0.3),0.5)", lambda f: tp.domains.Circle(X2, f([0.4, -0.3]), f(0.5)), L.C2),
        ("Sphere((0.5,-0.2,0.3),0.5)", lambda f: tp.domains.Sphere(X3, f([0.5, -0.2, 0.3]), f(0.5)), L.S2),
        ("Parallelogram(slanted)", lambda f: tp.domains.Parallelogram(X2, f([0.3, 0.1]), f([1.7, 0.6]), f([-0.2, 1.3])), L.SLP),
        ("Triangle(slanted)", lambda f: tp.domains.Triangle(X2, f([0.3, 0.1]), f([1.7, 0.6]), f([-0.2, 1.3])), L.TSL),
    ]
    for cname, mk, ast in cases:
        for form, f in (("tensor", lambda v: T(v, dtype=torch.float32)), ("numbers", lambda v: v)):
            st = "%s|%s" % (cname, form)
            res["states"].append(st)
            try:
                D = mk(f)
                obs = []
                with Seam():
                    for rnd in range(3):
                        obs.append(("volume", float(torch.as_tensor(D.volume()).reshape(-1)[0])))
                        obs.append(("boundary-volume", float(torch.as_tensor(D.boundary.volume()).reshape(-1)[0])))
                        obs.append(("box", [round(float(x), 6) for x in torch.as_tensor(D.bounding_box()).reshape(-1)]))
                        g = D.sample_grid(n=5)
                        r = D.sample_random_uniform(n=3)
                        obs.append(("inside", bool(G.member(ast, {"x": torch.cat([g.as_tensor, r.as_tensor]).double().numpy()}, 1e-4).all())))
                res["evals"] += len(obs)
                res["transitions"] += len(obs)
            except Exception as e:
                if not is_deliberate(e):
                    viol("C10|error|%s|tensor-arguments" % type(e).__name__, "%s raised %s: %s" % (st, exc_sig(e), str(e)[:120]))
                continue
            want_v = float(G.measure(ast, {}, 1)[0])
            want_b = float(G.measure(L.B(ast), {}, 1)[0])
            box = [round(float(x), 6) for x in G.ref_box(ast, {})[0].reshape(-1)]
            for i, (what, val) in enumerate(obs):
                exp = {"volume": want_v, "boundary-volume": want_b, "box": box, "inside": True}[what]
                ok = (abs(val - exp) <= 1e-5 * max(1, abs(exp))) if isinstance(exp, float) else (np.allclose(val, exp, atol=1e-5) if what == "box" else val == exp)
                if not ok:
                    viol("C10|repeated-observation|%s|%s" % (what, form), "%s: observation #%d (%s, round %d) = %s, expected %s (the shape parameters were given as %s)" % (
                        cname, i, what, i // 4, val, exp, form))
                    break
            else:
                res["outcomes"].append(st)
    # ONE dependent product object asked for its (estimated) volume at different external parameter values, in turn:
    # every answer belongs to the row it was asked for (nothing learned for one row may be kept for another)
    steep = L.X(L.I_STEEP, L.I(0, L.aff(0.5, s=0.5), var="t"))          # volume 0.325 at s=0, 1.10 at s=1
    moving = L.X(L.C([L.aff(0, t=1), 0], L.aff(0.3, k=0.4)), L.IT)       # volume pi*(0.3+0.4k)^2: 0.283 at k=0, 1.54 at k=1
    for nm, ast, var, lo_true, hi_true in (("I_x(t) * I_t(s)", steep, "s", 0.325, 1.10), ("C(t; k) * I_t", moving, "k", math.pi * 0.09, math.pi * 0.49)):
        st = "stateful-volume|%s" % nm
        res["states"].append(st)
        try:
            D = Bd.build_tp(ast)
            seq = []
            with Seam():
                for val in (0.0, 1.0, 0.0, 1.0):
                    seq.append(float(torch.as_tensor(D.volume(Bd.params_points({var: [val]}))).reshape(-1)[0]))
                    res["transitions"] += 1
        except Exception as e:
            if not is_deliberate(e):
                viol("C10|error|%s|stateful-volume" % type(e).__name__, "%s raised %s: %s" % (st, exc_sig(e), str(e)[:120]))
            continue
        res["evals"] += 1
        # estimates from 10 sampled points: generous bands around the true values, far apart from each other
        okk = all(0.5 * lo_true <= seq[i] <= 1.6 * lo_true for i in (0, 2)) and all(0.6 * hi_true <= seq[i] <= 1.5 * hi_true for i in (1, 3))
        if not okk:
            viol("C10|volume-depends-on-history", "%s: ONE domain object asked at %s = 0, 1, 0, 1 answers %s; the true volumes are %.3g and %.3g" % (
                nm, var, [round(v, 4) for v in seq], lo_true, hi_true))
        else:
            res["outcomes"].append(st)
    res["samples"] = [{"aspect": "tensor-arguments", "cases": [c[0] for c in cases]}]
    return res


def run_item(item):
    if item["aspect"] == "trimesh":
        return run_trimesh(item)
    if item["aspect"] == "tensorargs":
        return run_tensorargs(item)
    a, aspect, tier = item["ast"], item["aspect"], item["tier"]
    name = G.show(a)
    res = {"evals": 0, "transitions": 0, "states": [], "outcomes": [], "violations": [], "rejected": 0, "samples": []}
    seen = set()

    def viol(key, what, detail=None):
        if key in seen:
            return
        seen.add(key)
        res["violations"].append({"key": key, "what": "%s: %s" % (name, what), "detail": detail or {"ast": a}})

    fv = sorted(G.free_vars(a))
    try:
        D = Bd.build_tp(a)
    except Exception as e:
        if is_deliberate(e):
            res["rejected"] += 1
            return res
        viol("C10|error|%s|constructor|%s" % (type(e).__name__, top_sig(a)), "constructor raised %s: %s" % (exc_sig(e), e))
        return res

    def check_volume(Dx, ax, batch, tag):
        k = len(batch[sorted(batch)[0]]) if batch else 0
        prm = Bd.params_points(batch) if batch else Points.empty()
        st = "%s|%s|%s" % (name, tag, batch)
        res["states"].append(st)
        res["transitions"] += 1
        res["evals"] += 1
        try:
            v = _vol(Dx, prm)
        except Exception as e:
            if is_deliberate(e):
                res["rejected"] += 1
                return None
            viol("C10|error|%s|volume|%s%s" % (type(e).__name__, top_sig(ax), "|k2+" if k > 1 else ""),
                 "%s volume(%s) raised %s: %s" % (tag, batch, exc_sig(e), str(e)[:120]))
            return None
        vals = {vv: np.asarray(batch[vv], dtype=np.float64).reshape(-1, 1) for vv in batch}
        exp = G.measure(ax, vals, max(k, 1))
        if exp is None:
            return v
        rows = max(k, 1)
        flat = v.detach().double().reshape(-1).numpy()
        if len(flat) != rows:
            if not (len(flat) == 1 and np.allclose(exp, exp[0])):
                viol("C10|volume-rows|%s" % kind_sig(ax), "%s volume(%s) has %d value(s) for %d parameter row(s)" % (tag, batch, len(flat), rows))
                return v
            flat = np.repeat(flat, rows)
        elif k >= 1 and tuple(v.shape) != (rows, 1):
            viol("C10|volume-shape|%s" % kind_sig(ax), "%s volume(%s) has shape %s, expected (%d,1)" % (tag, batch, tuple(v.shape), rows))
        if not np.all(np.isfinite(flat)) or (flat <= 0).any():
            viol("C10|volume-not-positive|%s" % kind_sig(ax), "%s volume(%s) = %s is not one positive value per row (true %s)" % (tag, batch, flat.tolist(), exp.tolist()))
            return v
        if not np.allclose(flat, exp, rtol=1e-5, atol=1e-7):
            viol("C10|volume-value|%s" % kind_sig(ax), "%s volume(%s) = %s, true measure %s" % (tag, batch, flat.tolist(), exp.tolist()))
        else:
            res["outcomes"].append(st)
        return v

    batches = L.param_batches(fv) if fv else [{}]

    if aspect in ("volume", "compose"):
        for batch in batches:
            check_volume(D, a, batch, "direct")
        # partial evaluation: D(t=v).volume() equals the measure at t=v
        if fv:
            for th in theta_rows(fv):
                try:
                    Dv = Bd.build_tp(a)(**{v: torch.tensor(float(x)) for v, x in th.items()})
                except Exception as e:
                    if not is_deliberate(e):
                        viol("C10|error|%s|call|%s" % (type(e).__name__, top_sig(a)), "partial evaluation %s raised %s: %s" % (th, exc_sig(e), str(e)[:120]))
                    break
                check_volume(Dv, G.substitute(a, th), {}, "evaluated%s" % sorted(th.items()))
        # set_volume overrides (number and function)
        for batch in batches[:3]:
            k = len(batch[fv[0]]) if fv else 0
            D2 = Bd.build_tp(a)
            res["evals"] += 1
            try:
                D2.set_volume(7.25)
                v = _vol(D2, Bd.params_points(batch) if batch else Points.empty()).double().reshape(-1)
                if not torch.allclose(v, torch.full_like(v, 7.25)):
                    viol("C10|set-volume-ignored|%s" % top_sig(a), "after set_volume(7.25) volume(%s) = %s" % (batch, v.tolist()))
                else:
                    res["outcomes"].append("%s|setvol|%s" % (name, batch))
                if fv and batch:
                    D3 = Bd.build_tp(a)
                    v0 = fv[0]
                    D3.set_volume(eval("lambda %s: 2.0 + %s" % (v0, v0)))
                    v = _vol(D3, Bd.params_points(batch)).double().reshape(-1)
                    exp = torch.tensor([2.0 + x for x in batch[v0]], dtype=torch.float64)
                    if v.shape != exp.shape or not torch.allclose(v, exp):
                        viol("C10|set-volume-fn-ignored|%s" % top_sig(a), "after set_volume(lambda %s: 2+%s) volume(%s) = %s" % (v0, v0, batch, v.tolist()))
            except Exception as e:
                if not is_deliberate(e):
                    viol("C10|error|%s|set_volume|%s" % (type(e).__name__, top_sig(a)), "set_volume/volume raised %s: %s" % (exc_sig(e), str(e)[:120]))
        # ... and the override survives partial evaluation (C10: "unchanged by partial evaluation", C17: "volume agrees"):
        # D.set_volume(c); D(theta).volume() == c   and   D.set_volume(f); D(theta).volume() == f(theta)
        if fv:
            for th in theta_rows(fv):
                kw = {v: torch.tensor(float(x)) for v, x in th.items()}
                for mode in ("number", "function"):
                    res["evals"] += 1
                    try:
                        D4 = Bd.build_tp(a)
                        v0 = fv[0]
                        if mode == "number":
                            D4.set_volume(7.25)
                            exp = 7.25
                        else:
                            D4.set_volume(eval("lambda %s: 2.0 + %s" % (v0, v0)))
                            exp = 2.0 + float(th[v0])
                        v = _vol(D4(**kw), Points.empty()).double().reshape(-1)
                        if len(v) != 1 or not torch.allclose(v, torch.full_like(v, exp)):
                            viol("C10|set-volume-lost-by-call|%s|%s" % (mode, top_sig(a)),
                                 "after set_volume(%s) the partial evaluation D(%s).volume() = %s, the user-set volume is %s"
                                 % ("7.25" if mode == "number" else "lambda %s: 2+%s" % (v0, v0), th, v.tolist(), exp))
                        else:
                            res["outcomes"].append("%s|setvol-call|%s|%s" % (name, mode, sorted(th.items())))
                    except Exception as e:
                        if not is_deliberate(e):
                            viol("C10|error|%s|set_volume-call|%s" % (type(e).__name__, top_sig(a)), "set_volume then partial evaluation raised %s: %s" % (exc_sig(e), str(e)[:120]))
        # a user-set volume of an OPERAND enters the composition rule like a computed one
        rule = None
        if a["k"] == "prod" and not (G.free_vars(a["a"]) & {v for v, _ in G.space_vars(a["b"])}):
            rule = lambda va, vb: va * vb
        elif a["k"] == "union" and a["disjoint"]:
            rule = lambda va, vb: va + vb
        elif a["k"] == "cut" and a["contained"]:
            rule = lambda va, vb: va - vb
        elif a["k"] in ("translate", "rotate"):
            rule = lambda va, vb: va
        if rule is not None:
            for batch in batches[:2]:
                k = len(batch[fv[0]]) if fv else 0
                vals = {vv: np.asarray(batch[vv], dtype=np.float64).reshape(-1, 1) for vv in batch}
                prm = Bd.params_points(batch) if batch else Points.empty()
                ma = G.measure(a["a"], vals, max(k, 1))
                mb = G.measure(a["b"], vals, max(k, 1)) if isinstance(a.get("b"), dict) else np.zeros(max(k, 1))
                if ma is None or mb is None:
                    continue
                for which, uv in (("first", 7.25), ("second", 0.0625)):
                    if which == "second" and a["k"] in ("translate", "rotate"):
                        continue
                    Dc = Bd.build_tp(a)
                    op = (getattr(Dc, "domain_a", None) or getattr(Dc, "domain", None)) if which == "first" else getattr(Dc, "domain_b", None)
                    if op is None:
                        continue
                    res["evals"] += 1
                    res["transitions"] += 1
                    try:
                        op.set_volume(uv)
                        v = _vol(Dc, prm).double().reshape(-1).numpy()
                    except Exception as e:
                        if not is_deliberate(e):
                            viol("C10|error|%s|operand-set-volume|%s" % (type(e).__name__, top_sig(a)), "volume after set_volume on the %s operand raised %s: %s" % (which, exc_sig(e), str(e)[:120]))
                        continue
                    exp = rule(np.full_like(ma, uv), mb) if which == "first" else rule(ma, np.full_like(mb, uv))
                    if len(v) == 1 and len(exp) > 1 and np.allclose(exp, exp[0]):
                        v = np.repeat(v, len(exp))
                    if v.shape != exp.shape or not np.allclose(v, exp, rtol=1e-5, atol=1e-7):
                        viol("C10|operand-user-volume-ignored|%s" % top_sig(a), "with set_volume(%g) on the %s operand, volume(%s) = %s, the composition rule gives %s" % (
                            uv, which, batch, v.tolist(), exp.tolist()))
                    else:
                        res["outcomes"].append("%s|operand-setvol|%s|%s" % (name, which, batch))
        res["samples"] = [{"expr": name, "aspect": aspect, "batches": batches[:2]}]
        return res

    # ---------------------------------------------------------------- density ------------
    solid = G.is_solid(a)
    for th in theta_rows(fv)[: (3 if tier == "quick" else 9)]:
        if not L.positive_measure(a, th):
            continue
        vals1 = {v: np.array([[x]]) for v, x in th.items()}
        closed = G.measure(a, vals1, 1)
        true_v = None
        if closed is not None:
            true_v = float(closed[0])
        elif solid and not G.has_kind_prod(a):
            true_v = G.quad_measure(a, vals1)
        elif G.show(a) == G.show(L.B(ALIGNED_U)):
            true_v = 5.0          # perimeter of the 1.5 x 1 bar (coincident pieces of the operand boundaries count once)
        elif a["k"] == "boundary" and G.is_solid(a["a"]) and not G.has_kind_prod(a):
            # length / area of the boundary of a Boolean combination: reference boundary points of the leaves (uniform in
            # arclength) that the ring test keeps on the composite boundary
            from .c11 import boundary_shares
            bx = G.ref_box(a, vals1)[0]
            ex = bx[:, 1] - bx[:, 0]
            boundary_shares(a["a"], th, np.stack([bx[:, 0] - 0.01 * ex, bx[:, 1] + 0.01 * ex], 1), 2)
            true_v = float(boundary_shares.total)
        if true_v is None or true_v <= 0:
            continue
        prm = Bd.params_points({v: [x] for v, x in th.items()}) if th else Points.empty()
        leaf_kind = a["k"] if a["k"] in G.PRIMS else (a["a"]["k"] + "-boundary" if a["k"] == "boundary" and a["a"]["k"] in G.PRIMS else None)
        exact = (a["k"] in EXACT_COUNT) or (a["k"] == "boundary" and a["a"]["k"] in EXACT_BOUNDARY)
        for d in BOUNDS[tier]["densities"]:
            st = "%s|density=%g|%s" % (name, d, th)
            res["states"].append(st)
            want = d * true_v
            for mode in ("random", "grid"):
                def run(script, mode=mode):
                    sm = Seam(script)
                    out = err = None
                    Dx = Bd.build_tp(a)
                    try:
                        with sm:
                            out = (Dx.sample_random_uniform(d=d, params=prm) if mode == "random" else Dx.sample_grid(d=d, params=prm))
                    except SeamBudget as e:
                        err = ("budget", str(e))
                    except Exception as e:
                        err = ("rejected", "") if is_deliberate(e) else ("error", type(e).__name__, "%s: %s" % (exc_sig(e), str(e)[:120]))
                    return sm.calls, (out, err)
                for script, (out, err) in explore_deviations(run, 0):
                    res["transitions"] += 1
                    res["evals"] += 1
                    if err:
                        if err[0] == "rejected":
                            res["rejected"] += 1
                        elif err[0] == "error":
                            viol("C10|error|%s|density-%s|%s" % (err[1], mode, top_sig(a)), "sample(%s, d=%g) at %s raised %s" % (mode, d, th, err[2]))
                        continue
                    cnt = len(out)
                    # the documented count is ceil(density * volume()): replicate it in float32 from the library's own
                    # volume (which is compared with the true measure separately), so that no slack is needed
                    try:
                        v_lib = float(torch.as_tensor(Bd.build_tp(a).volume(prm) if th else Bd.build_tp(a).volume()).reshape(-1)[0])
                    except Exception:
                        v_lib = true_v
                    ceil_n = int(math.ceil(float(np.float32(d) * np.float32(v_lib))))
                    if mode == "random":
                        if exact:
                            if cnt != ceil_n:
                                viol("C10|density-count|%s" % kind_sig(a), "random sampling with d=%g at %s returned %d points, ceil(d*volume())=ceil(%g*%.7g)=%d" % (d, th, cnt, d, v_lib, ceil_n))
                            else:
                                res["outcomes"].append(st + "|random")
                        else:
                            if abs(cnt - want) > 0.15 * want + 3:
                                viol("C10|density-expected-count|%s" % top_sig(a), "random sampling with d=%g at %s returned %d points, d*true measure = %.2f" % (d, th, cnt, want))
                            else:
                                res["outcomes"].append(st + "|random")
                    else:
                        slack = 0 if exact else int(0.15 * want + 3)
                        exact_grid = a["k"] == "interval" or (a["k"] == "boundary" and a["a"]["k"] in ("circle", "sphere"))
                        if exact_grid and cnt != ceil_n:
                            # equally spaced points on an interval / a circle line, the spiral lattice on a sphere: any n exists
                            viol("C10|grid-density-count|%s" % kind_sig(a), "grid sampling with d=%g at %s returned %d points, ceil(d*volume())=ceil(%g*%.7g)=%d" % (d, th, cnt, d, v_lib, ceil_n))
                        elif cnt > ceil_n + slack:
                            viol("C10|grid-density-too-many|%s" % top_sig(a), "grid sampling with d=%g at %s returned %d points, more than ceil(d*measure)=%d" % (d, th, cnt, ceil_n))
                        elif a["k"] in ("interval", "para") and cnt:
                            bad = _regular(a, out, vals1)
                            if bad:
                                viol("C10|grid-not-regular|%s" % kind_sig(a), "grid sampling with d=%g at %s: %s" % (d, th, bad))
                            else:
                                res["outcomes"].append(st + "|grid")
                        else:
                            res["outcomes"].append(st + "|grid")
    res["samples"] = [{"expr": name, "aspect": aspect}]
    return res


def _regular(a, pts, vals1):
    """complete regular grid check for intervals and parallelograms (barycentric tensor grid)"""
    x = pts.as_tensor.detach().double().numpy()
    if a["k"] == "interval":
        xs = np.sort(x[:, 0])
        if len(xs) > 2 and not np.allclose(np.diff(xs), np.diff(xs)[0], rtol=1e-3, atol=1e-5):
            return "points are not equally spaced"
        return None
    v = G.prim_vertices(a, vals1, 1)[0]
    M = np.stack([v[1] - v[0], v[3] - v[0]], 1)
    bary = np.linalg.solve(M, (x - v[0]).T).T
    us = np.unique(np.round(bary[:, 0], 4))
    ws = np.unique(np.round(bary[:, 1], 4))
    if len(us) * len(ws) != len(x):
        return "%d points are not a complete %dx%d barycentric tensor grid" % (len(x), len(us), len(ws))
    for arr in (us, ws):
        if len(arr) > 2 and not np.allclose(np.diff(arr), np.diff(arr)[0], rtol=1e-2, atol=1e-4):
            return "barycentric grid lines are not equally spaced"
    return None
