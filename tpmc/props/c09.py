"""C09 -- DeepONet output is the branch-trunk inner product; the fast trunk path is equivalent."""
import itertools
import numpy as np
import torch
import torch.nn as nn
import torch.nn.functional as Fn
import torchphysics as tp
from torchphysics.models.deeponet.branchnets import FCBranchNet, ConvBranchNet1D
from torchphysics.models.deeponet.trunknets import FCTrunkNet
from torchphysics.models.deeponet.deeponet import DeepONet
from torchphysics.models.deeponet.layers import TrunkLinear
from torchphysics.problem.spaces import Points, Space, FunctionSpace
from torchphysics.problem.domains import Interval, CustomFunctionSet
from torchphysics.problem.samplers import GridSampler

PROP = "C09"
LEVEL = "model_checking"
TECHNIQUE = ("bounded-exhaustive enumeration of DeepONet configurations (trunk/branch layouts, activations, input/output dims, "
             "neurons, numbers of functions and locations, every form of branch input, both trunk paths) against an inner-product "
             "reference recomputed from the raw weights; explicit exploration of fix_branch/forward histories; fast trunk path "
             "compared with the plain network up to second input derivatives and parameter gradients")
RULE = ("trunk hidden {(3,),(3,2)} x activation {tanh, sin} x trunk input dim {1,2} x output dim {1,2} x neurons/dim {2,3} x "
        "#functions {1,2,3} x #locations {1,3} x branch input form {callable, 2-D/3-D tensor, Points, FunctionSet} x "
        "trunk_input_copied {T,F}; histories of length <= 3 over {fix_branch(f1), fix_branch(f2), forward(x), forward(x,f)}; "
        "distinct by configuration")
ASSUMPTIONS = ["reference features are recomputed with torch.nn.functional.linear from the layers' weights (no library forward)",
               "fast path vs plain path tolerance 1e-5 relative (float32)"]
BOUNDS = {"quick": {"hidden": [[3], [3, 2]], "history": 3}, "thorough": {"hidden": [[3], [3, 2], [4, 3, 2]], "history": 3}}
ITEM_LIMIT = {"quick": 900, "thorough": 3600}


class Sin(nn.Module):
    def forward(self, x):
        return torch.sin(x)


def items(tier):
    out = []
    for hid, act, din, dout, npd, copied in itertools.product(range(len(BOUNDS[tier]["hidden"])), ("tanh", "sin", "mixed"), (1, 2), (1, 2), (2, 3), (True, False)):
        out.append({"name": "inner|h%d|%s|din%d|dout%d|npd%d|copied=%s" % (hid, act, din, dout, npd, copied), "kind": "inner",
                    "hid": hid, "act": act, "din": din, "dout": dout, "npd": npd, "copied": copied, "tier": tier})
    # the convolutional branch net (a length-preserving Conv1d in front of the fully connected layers)
    for act, din, dout, copied, edim in itertools.product(("tanh", "mixed"), (1, 2), (1, 2), (True, False), (1, 2)):
        out.append({"name": "inner|conv|e%d|h0|%s|din%d|dout%d|npd2|copied=%s" % (edim, act, din, dout, copied), "kind": "inner", "branch": "conv",
                    "edim": edim, "hid": 0, "act": act, "din": din, "dout": dout, "npd": 2, "copied": copied, "tier": tier})
    for hid, act, din, dout in itertools.product(range(len(BOUNDS[tier]["hidden"])), ("tanh", "sin", "mixed"), (1, 2), (1, 2)):
        out.append({"name": "fastpath|h%d|%s|din%d|dout%d" % (hid, act, din, dout), "kind": "fast", "hid": hid, "act": act,
                    "din": din, "dout": dout, "tier": tier, "cost": 3})
    out.append({"name": "histories", "kind": "hist", "tier": tier, "cost": 5})
    out.append({"name": "functionset-two-variables", "kind": "fset2", "tier": tier, "cost": 2})
    out.append({"name": "trunk-linear-layer", "kind": "trunklinear", "tier": tier, "cost": 1})
    for copied in (True, False):
        out.append({"name": "trunk-variable-order|copied=%s" % copied, "kind": "trunkorder", "copied": copied, "tier": tier, "cost": 2})
    return out


K = 4          # discretisation points of the branch input


def acts_of(act, hidden):
    """the SPECIFIED activation per hidden layer"""
    if act == "mixed":
        return [nn.Tanh(), nn.Sigmoid(), nn.Softplus(), Sin()][:len(hidden)]
    return [nn.Tanh() if act == "tanh" else Sin() for _ in hidden]


def make_net(hidden, act, din, dout, npd, copied, seed, branch_kind="fc", edim=1):
    torch.manual_seed(seed)
    a = acts_of(act, hidden)
    T = Space({"t": 1})
    fs = FunctionSpace(Interval(T, 0, 1), Space({"e": edim}))
    sampler = GridSampler(fs.input_domain, K).make_static()
    trunk = FCTrunkNet(Space({"x": din}), hidden=tuple(hidden), activations=a, trunk_input_copied=copied)
    if branch_kind == "conv":
        conv = nn.Conv1d(edim, edim, kernel_size=3, padding=1)
        branch = ConvBranchNet1D(fs, discretization_sampler=sampler, convolutional_network=conv, hidden=tuple(hidden), activations=a)
    else:
        branch = FCBranchNet(fs, discretization_sampler=sampler, hidden=tuple(hidden), activations=a)
    net = DeepONet(trunk, branch, output_space=Space({"u": dout}), output_neurons=npd * dout)
    return net, fs, sampler


def seq_ref(seq, x, acts=None):
    """plain functional evaluation: the linear layers' weights come from the network, the activation after the
    i-th hidden layer is the SPECIFIED one (acts[i]); without acts the network's own activation modules are used"""
    i = 0
    lin = [m for m in seq if isinstance(m, (nn.Linear, TrunkLinear))]
    if acts is None:
        for m in seq:
            x = Fn.linear(x, m.weight, m.bias) if isinstance(m, (nn.Linear, TrunkLinear)) else m(x)
        return x
    for i, m in enumerate(lin):
        x = Fn.linear(x, m.weight, m.bias)
        if i < len(lin) - 1:
            x = acts[i](x)
    return x


def fn_values(ks, tgrid, edim=1):
    """the input functions f_k(t) = sin(3 k t) + k (second component: cos(2 k t) - t) on the discretisation grid -> (F, K, edim)"""
    k = torch.tensor(ks, dtype=torch.float32).reshape(-1, 1, 1)
    t = tgrid.reshape(1, -1, 1)
    first = torch.sin(3 * k * t) + k
    return first if edim == 1 else torch.cat([first, torch.cos(2 * k * t) - t], -1)


def locations(J, din, F=None):
    base = torch.tensor([[((0.37 * (r + 1) + 0.21 * (j + 1) + 0.113 * (r + 1) * (j + 1)) % 2.0) - 0.7 for j in range(din)] for r in range(J)], dtype=torch.float32)
    return base


def run_item(item):
    res = {"evals": 0, "transitions": 0, "states": [], "outcomes": [], "violations": [], "rejected": 0, "samples": []}
    seen = set()

    def viol(key, what):
        if key in seen:
            return
        seen.add(key)
        res["violations"].append({"key": key, "what": "%s: %s" % (item["name"], what), "detail": {"item": item["name"]}})
    tier = item["tier"]
    if item["kind"] == "trunklinear":
        # the public fast-path layer equals torch.nn.Linear with the same weights, with and WITHOUT a bias, for 2-D and 3-D inputs
        for bias in (True, False):
            for din, dout in ((1, 2), (3, 2), (2, 1)):
                cfg = "TrunkLinear(%d, %d, bias=%s)" % (din, dout, bias)
                res["states"].append(cfg)
                torch.manual_seed(5)
                lay = TrunkLinear(din, dout, bias=bias)
                ref = nn.Linear(din, dout, bias=bias)
                with torch.no_grad():
                    ref.weight.copy_(lay.weight)
                    if bias:
                        ref.bias.copy_(lay.bias)
                res["evals"] += 1
                res["transitions"] += 2
                nparams = sum(p_.numel() for p_ in lay.parameters())
                if nparams != din * dout + (dout if bias else 0) or ((lay.bias is None) != (not bias)):
                    viol("C09|trunk-linear|parameters", "%s has %d learnable numbers (bias %s)" % (cfg, nparams, "present" if lay.bias is not None else "absent"))
                    continue
                okk = True
                for shape in ((4, din), (2, 4, din)):
                    # the layer is specified for inputs that are copies along the first of three axes; a 2-D input counts as one copy
                    x2 = torch.linspace(-1, 1, 4 * din).reshape(4, din)
                    x = x2 if len(shape) == 2 else x2.unsqueeze(0).repeat(shape[0], 1, 1)
                    with torch.no_grad():
                        a_, b_ = lay(x), ref(x if len(shape) == 3 else x.unsqueeze(0))
                    if a_.shape != b_.shape or not torch.allclose(a_, b_, rtol=1e-6, atol=1e-7):
                        viol("C09|trunk-linear|value", "%s on an input of shape %s differs from torch.nn.Linear with the same weights" % (cfg, shape))
                        okk = False
                if okk:
                    res["outcomes"].append(cfg)
        return res
    if item["kind"] == "fset2":
        # input functions of TWO variables (x, t); the discretisation points are stored as (t, x): the branch input built
        # from the function set equals the by-name values f_k(x_i, t_i) supplied as a tensor
        import torchphysics as tp_
        X1, T1 = Space({"x": 1}), Space({"t": 1})
        Ix, It = Interval(X1, 0, 1), Interval(T1, 0, 2)
        for order in ("tx", "xt"):
            for F in (1, 3):
                cfg = "discretisation stored as %s, %d functions" % (order, F)
                res["states"].append(item["name"] + "|" + cfg)
                torch.manual_seed(31)
                fs = FunctionSpace(Ix * It, Space({"e": 1}))
                dsamp = ((GridSampler(It, 2) * GridSampler(Ix, 3)) if order == "tx" else (GridSampler(Ix, 3) * GridSampler(It, 2))).make_static()
                trunk = FCTrunkNet(Space({"y": 1}), hidden=(3,))
                branch = FCBranchNet(fs, discretization_sampler=dsamp, hidden=(3,))
                net = DeepONet(trunk, branch, output_space=Space({"u": 1}), output_neurons=2)
                fset = CustomFunctionSet(fs, GridSampler(Interval(Space({"k": 1}), 1, 2), F), lambda k, x, t: k * x + 10.0 * t + k * k)
                pts = dsamp.sample_points()
                xs, ts = pts.coordinates["x"], pts.coordinates["t"]
                ks = GridSampler(Interval(Space({"k": 1}), 1, 2), F).sample_points().as_tensor.reshape(F, 1, 1)
                vals = ks * xs.reshape(1, -1, 1) + 10.0 * ts.reshape(1, -1, 1) + ks * ks
                y0 = locations(3, 1)
                res["evals"] += 2
                res["transitions"] += 2
                try:
                    with torch.no_grad():
                        o1 = net(Points(y0.clone(), Space({"y": 1})), fset).as_tensor
                        o2 = net(Points(y0.clone(), Space({"y": 1})), vals.clone()).as_tensor
                except Exception as e:
                    viol("C09|error|%s|functionset-two-variables" % type(e).__name__, "%s raised %s: %s" % (cfg, type(e).__name__, str(e)[:120]))
                    continue
                if o1.shape != o2.shape or not torch.allclose(o1, o2, rtol=1e-5, atol=1e-6):
                    viol("C09|functionset-variable-order", "%s: the function set as branch input gives another output than its by-name values f_k(x_i, t_i) (max difference %.3g)" % (
                        cfg, float((o1 - o2).abs().max()) if o1.shape == o2.shape else float("nan")))
                else:
                    res["outcomes"].append(item["name"] + "|" + cfg)
        return res
    if item["kind"] == "trunkorder":
        # a trunk over TWO named variables (x, y): locations whose columns are stored as (y, x) give the same output
        copied = item["copied"]
        for act, dout in itertools.product(("tanh", "mixed"), (1, 2)):
            torch.manual_seed(21)
            a_ = acts_of(act, [3, 3])
            fs = FunctionSpace(Interval(Space({"t": 1}), 0, 1), Space({"e": 1}))
            sampler = GridSampler(fs.input_domain, K).make_static()
            trunk = FCTrunkNet(Space({"x": 1, "y": 1}), hidden=(3, 3), activations=a_, trunk_input_copied=copied)
            branch = FCBranchNet(fs, discretization_sampler=sampler, hidden=(3, 3), activations=a_)
            net = DeepONet(trunk, branch, output_space=Space({"u": dout}), output_neurons=2 * dout)
            tgrid = sampler.sample_points().as_tensor[:, 0]
            for F in (1, 2):
                vals = fn_values(list(np.linspace(0, 1, F + 2)[1:-1]), tgrid)
                x0 = locations(3, 2)
                for xform in ("2d", "3d-rep"):
                    x = x0 if xform == "2d" else x0.unsqueeze(0).repeat(F, 1, 1)
                    cfg = "%s dout=%d F=%d trunk_input=%s" % (act, dout, F, xform)
                    res["states"].append(item["name"] + "|" + cfg)
                    res["evals"] += 2
                    res["transitions"] += 2
                    try:
                        with torch.no_grad():
                            o1 = net(Points(x.clone(), Space({"x": 1, "y": 1})), vals.clone()).as_tensor
                            o2 = net(Points(torch.flip(x, dims=(-1,)).clone(), Space({"y": 1, "x": 1})), vals.clone()).as_tensor
                    except Exception as e:
                        viol("C09|error|%s|trunk-variable-order" % type(e).__name__, "%s raised %s: %s" % (cfg, type(e).__name__, str(e)[:120]))
                        continue
                    with torch.no_grad():
                        B = seq_ref(net.branch.sequential, vals.reshape(F, K), a_).reshape(F, dout, 2)
                        Tt = seq_ref(net.trunk.sequential, x0, a_).reshape(3, dout, 2)
                        exp = torch.einsum("icn,jcn->ijc", B, Tt)
                    if o1.shape != exp.shape or not torch.allclose(o1, exp, rtol=1e-5, atol=1e-6):
                        viol("C09|inner-product|two-variable-trunk", "%s: output differs from the inner product (declared variable order)" % cfg)
                    elif o2.shape != o1.shape or not torch.allclose(o1, o2, rtol=1e-6, atol=1e-7):
                        viol("C09|trunk-variable-order", "%s: the locations stored as (y, x) give another output than stored as (x, y) (max difference %.3g)" % (
                            cfg, float((o1 - o2).abs().max()) if o2.shape == o1.shape else float("nan")))
                    else:
                        res["outcomes"].append(item["name"] + "|" + cfg)
        return res
    if item["kind"] == "inner":
        hidden = BOUNDS[tier]["hidden"][item["hid"]]
        din, dout, npd, copied = item["din"], item["dout"], item["npd"], item["copied"]
        edim = item.get("edim", 1)
        net, fs, sampler = make_net(hidden, item["act"], din, dout, npd, copied, seed=11 + item["hid"], branch_kind=item.get("branch", "fc"), edim=edim)
        tgrid = sampler.sample_points().as_tensor[:, 0]
        for F in (1, 2, 3):
            ks = list(np.linspace(0, 1, F + 2)[1:-1])
            vals = fn_values(ks, tgrid, edim)                # (F,K,edim)
            forms = [("tensor3d", vals.clone()), ("points3d", Points(vals.clone(), Space({"e": edim})))]
            fn_k = (lambda k, t: torch.sin(3 * k * t) + k) if edim == 1 else (lambda k, t: torch.cat([torch.sin(3 * k * t) + k, torch.cos(2 * k * t) - t], -1))
            pset = CustomFunctionSet(fs, GridSampler(Interval(Space({"k": 1}), 0, 1), F), fn_k)
            forms.append(("functionset", pset))
            if F >= 2 and edim == 1:
                # the same functions supplied as a SUM of two function sets (first one function, then the rest)
                from torchphysics.problem.samplers import DataSampler
                def pset_of(kk):
                    return CustomFunctionSet(fs, DataSampler({"k": torch.tensor(kk, dtype=torch.float32).reshape(-1, 1)}), lambda k, t: torch.sin(3 * k * t) + k)
                forms.append(("functionset-sum", pset_of(ks[:1]) + pset_of(ks[1:])))
                # a sum that was afterwards used as an operand of a LARGER sum still denotes its own functions
                s_own = pset_of(ks[:1]) + pset_of(ks[1:])
                _larger = s_own + pset_of([0.123])
                forms.append(("functionset-sum-reused", s_own))
                # ... also when the larger sum is formed with ANOTHER sum (collection + collection)
                s_own2 = pset_of(ks[:1]) + pset_of(ks[1:])
                _larger2 = s_own2 + (pset_of([0.123]) + pset_of([0.456]))
                forms.append(("functionset-sum-reused2", s_own2))
            if F >= 3 and edim == 1:
                forms.append(("functionset-sum3", (pset_of(ks[:1]) + pset_of(ks[1:2])) + pset_of(ks[2:])))
            if F == 1 and edim == 1:
                k0 = float(ks[0])
                forms += [("callable", lambda t, k0=k0: torch.sin(3 * k0 * t) + k0), ("tensor2d", vals[0].clone()),
                          ("points2d", Points(vals[0].clone(), Space({"e": 1})))]
            for J in (1, 3):
                x0 = locations(J, din)
                for form, binp in forms:
                    for xform in ("2d", "3d-one", "3d-rep") + (("3d-diff",) if (not copied and F >= 2) else ()):
                        if xform == "2d":
                            x = x0
                        elif xform == "3d-one":
                            x = x0.unsqueeze(0)
                        elif xform == "3d-rep":
                            x = x0.unsqueeze(0).repeat(F, 1, 1)
                        else:
                            # every function has its OWN locations (allowed when the trunk input is not declared as copied)
                            x = torch.stack([x0 + 0.13 * (i + 1) for i in range(F)])
                        cfg = "F=%d J=%d branch_input=%s trunk_input=%s" % (F, J, form, xform)
                        res["states"].append(item["name"] + "|" + cfg)
                        res["evals"] += 1
                        res["transitions"] += 1
                        try:
                            with torch.no_grad():
                                out = net(Points(x.clone(), Space({"x": din})), binp).as_tensor
                        except Exception as e:
                            viol("C09|error|%s|forward|%s" % (type(e).__name__, form), "%s raised %s: %s" % (cfg, type(e).__name__, str(e)[:120]))
                            continue
                        with torch.no_grad():
                            bin_ = vals.reshape(F, K * edim)
                            if item.get("branch") == "conv":
                                # the convolution sees (function, channel, discretisation point); its result is flattened again
                                cv = net.branch.conv_net
                                bin_ = Fn.conv1d(vals.permute(0, 2, 1), cv.weight, cv.bias, padding=1).permute(0, 2, 1).reshape(F, K * edim)
                            B = seq_ref(net.branch.sequential, bin_, acts_of(item["act"], hidden)).reshape(F, dout, npd)
                            Tt = seq_ref(net.trunk.sequential, x0, acts_of(item["act"], hidden)).reshape(J, dout, npd)
                            exp = torch.einsum("icn,jcn->ijc", B, Tt)
                            if xform == "3d-diff":
                                Ti = torch.stack([seq_ref(net.trunk.sequential, x[i], acts_of(item["act"], hidden)).reshape(J, dout, npd) for i in range(F)])
                                exp_own = torch.einsum("icn,ijcn->ijc", B, Ti)
                        if tuple(out.shape) != (F, J, dout):
                            viol("C09|shape|%s" % xform, "%s: output shape %s, expected %s" % (cfg, tuple(out.shape), (F, J, dout)))
                            continue
                        if xform == "3d-diff":
                            if not torch.allclose(out, exp_own, rtol=1e-5, atol=1e-6):
                                viol("C09|inner-product|own-locations|%s" % form, "%s: with different locations per function, output[i,j] differs from <branch(f_i), trunk(x[i,j])> (max error %.3g)" % (
                                    cfg, float((out - exp_own).abs().max())))
                            continue
                        if not torch.allclose(out, exp, rtol=1e-5, atol=1e-6):
                            i = (out - exp).abs().argmax()
                            viol("C09|inner-product|%s|%s" % (form, "copied" if copied else "plain"), "%s: output differs from sum_n branch[i,c,n]*trunk[j,c,n] (max error %.3g)" % (cfg, float((out - exp).abs().max())))
                            continue
                        # independence: function i alone, location j alone
                        ok = True
                        with torch.no_grad():
                            for i in range(F):
                                o1 = net(Points(x0.clone(), Space({"x": din})), vals[i:i + 1].clone()).as_tensor
                                if not torch.allclose(o1[0], exp[i], rtol=1e-5, atol=1e-6):
                                    viol("C09|function-dependence", "%s: function %d evaluated alone gives another output" % (cfg, i))
                                    ok = False
                            net.fix_branch_input(vals.clone())
                            for j in range(J):
                                o1 = net(Points(x0[j:j + 1].clone(), Space({"x": din}))).as_tensor
                                if not torch.allclose(o1[:, 0], exp[:, j], rtol=1e-5, atol=1e-6):
                                    viol("C09|location-dependence", "%s: location %d evaluated alone gives another output" % (cfg, j))
                                    ok = False
                        if ok:
                            res["outcomes"].append(item["name"] + "|" + cfg)
        res["samples"] = [{"config": item["name"]}]
        return res

    if item["kind"] == "fast":
        hidden = BOUNDS[tier]["hidden"][item["hid"]]
        din, dout = item["din"], item["dout"]
        for npd in (2, 3):
            fast, fs, sampler = make_net(hidden, item["act"], din, dout, npd, True, seed=5)
            plain, _, _ = make_net(hidden, item["act"], din, dout, npd, False, seed=6)
            plain.load_state_dict(fast.state_dict())
            tgrid = sampler.sample_points().as_tensor[:, 0]
            for F in (1, 2, 3):
                vals = fn_values(list(np.linspace(0, 1, F + 2)[1:-1]), tgrid)
                for J in (1, 3):
                    cfg = "npd=%d F=%d J=%d" % (npd, F, J)
                    res["states"].append(item["name"] + "|" + cfg)
                    obs = {}
                    for name, net in (("fast", fast), ("plain", plain)):
                        net.zero_grad()
                        x = locations(J, din).unsqueeze(0).repeat(F, 1, 1).clone().requires_grad_(True)
                        res["evals"] += 1
                        res["transitions"] += 1
                        try:
                            u = net(Points(x, Space({"x": din})), vals.clone()).as_tensor
                            ux = torch.autograd.grad(u.sum(), x, create_graph=True)[0]
                            uxx = torch.autograd.grad(ux[..., 0].sum(), x, create_graph=True, allow_unused=True)[0]
                            if uxx is None:
                                uxx = torch.zeros_like(x)
                            Ls = (u ** 2).sum() + (ux ** 2).sum() + (uxx ** 2).sum()
                            Ls.backward()
                            grads = {n_: (p.grad.clone() if p.grad is not None else torch.zeros_like(p)) for n_, p in net.named_parameters()}
                        except Exception as e:
                            viol("C09|error|%s|%s-path" % (type(e).__name__, name), "%s: %s path raised %s: %s" % (cfg, name, type(e).__name__, str(e)[:120]))
                            obs = None
                            break
                        obs[name] = (u.detach(), ux.detach(), uxx.detach(), grads)
                    if not obs:
                        continue
                    ok = True
                    for idx, what in enumerate(("output", "first input derivative", "second input derivative")):
                        a, b = obs["fast"][idx], obs["plain"][idx]
                        if a.shape != b.shape or not torch.allclose(a, b, rtol=1e-4, atol=1e-5 * max(1.0, float(b.abs().max()))):
                            viol("C09|fast-path|%s" % what.split()[0], "%s: %s of the shared-trunk-input path differs from the plain network (max %.3g)" % (
                                cfg, what, float((a - b).abs().max()) if a.shape == b.shape else -1))
                            ok = False
                    for n_ in obs["plain"][3]:
                        a, b = obs["fast"][3][n_], obs["plain"][3][n_]
                        if not torch.allclose(a, b, rtol=1e-4, atol=1e-5 * max(1.0, float(b.abs().max()))):
                            viol("C09|fast-path|parameter-gradient|%s" % ("trunk" if n_.startswith("trunk") else "branch"),
                                 "%s: gradient of sum(u^2+u_x^2+u_xx^2) w.r.t. %s differs between the two paths (max %.3g)" % (cfg, n_, float((a - b).abs().max())))
                            ok = False
                    if ok:
                        res["outcomes"].append(cfg + "|" + item["name"])
        res["samples"] = [{"config": item["name"]}]
        return res

    # ---- histories over the 'current function' register -------------------------------------
    net, fs, sampler = make_net([3], "tanh", 1, 1, 2, True, seed=3)
    tgrid = sampler.sample_points().as_tensor[:, 0]
    f = {1: fn_values([0.3], tgrid), 2: fn_values([0.8, 0.1], tgrid), 3: fn_values([0.55], tgrid)}
    x0 = locations(3, 1)
    # fixobj: the SAME tensor object is handed over again after its content was overwritten in place;
    # perturb_fixobj: ... after the branch weights were changed in place (as an optimizer step does)
    ops = [("fix", 1), ("fix", 2), ("forward", None), ("forward", 1), ("forward", 2), ("fixobj", 1), ("fixobj", 3), ("perturb_fixobj", 1)]
    n = 0
    for L_ in range(1, BOUNDS[tier]["history"] + 1):
        for hist in itertools.product(ops, repeat=L_):
            net2, _, _ = make_net([3], "tanh", 1, 1, 2, True, seed=3)
            cur = None
            OBJ = torch.zeros_like(f[1])
            res["states"].append(str(hist))
            ok = True
            for op, arg in hist:
                res["transitions"] += 1
                if op == "fix":
                    net2.fix_branch_input(f[arg].clone())
                    cur = arg
                    continue
                if op in ("fixobj", "perturb_fixobj"):
                    with torch.no_grad():
                        if op == "perturb_fixobj":
                            lin0 = [m_ for m_ in net2.branch.sequential if isinstance(m_, nn.Linear)][0]
                            lin0.weight.mul_(1.25)
                        OBJ.copy_(f[arg])
                    net2.fix_branch_input(OBJ)
                    cur = arg
                    continue
                if arg is not None:
                    cur = arg
                if cur is None:
                    try:
                        with torch.no_grad():
                            net2(Points(x0.clone(), Space({"x": 1})))
                        # no branch input yet: any output here is undefined; an empty / failing result is expected
                    except Exception:
                        pass
                    continue
                with torch.no_grad():
                    out = (net2(Points(x0.clone(), Space({"x": 1})), f[arg].clone()) if arg is not None else net2(Points(x0.clone(), Space({"x": 1})))).as_tensor
                    B = seq_ref(net2.branch.sequential, f[cur].reshape(-1, K)).reshape(-1, 1, 2)
                    Tt = seq_ref(net2.trunk.sequential, x0).reshape(3, 1, 2)
                    exp = torch.einsum("icn,jcn->ijc", B, Tt)
                res["evals"] += 1
                if out.shape != exp.shape or not torch.allclose(out, exp, rtol=1e-5, atol=1e-6):
                    viol("C09|history|current-function", "history %s: the output does not belong to the function fixed last (#%s)" % (hist, cur))
                    ok = False
                    break
            if ok:
                res["outcomes"].append(str(hist))
            n += 1
    res["samples"] = [{"histories": n}]
    return res
