"""C02 -- samplers return exactly n points per parameter row, paired in order; sampler algebra."""
import itertools
import numpy as np
import torch
import torchphysics as tp

from ..kernel.seam import Seam, SeamBudget
from ..ref import geom as G
from ..ref import build as Bd
from ..ref import lattice as L
from .geo_common import *  # noqa

PROP = "C02"
LEVEL = "model_checking"
TECHNIQUE = ("bounded-exhaustive enumeration of sampler terms (leaves x * + append static filter) x n x parameter "
             "batches x call histories on the real samplers, judged by a structural reference (row blocks, bit-identical "
             "parameter columns, membership at own row) and a differential reference algebra")
RULE = ("all sampler terms up to the tier's depth over the leaf alphabet x k in {0..3} tagged parameter rows x histories "
        "of 3 calls; distinct by (term, k, call index); non-trivial when the call returned rows")
ASSUMPTIONS = ["reference algebra: product = sample second factor, then first factor once per partner row; sum = row "
               "concatenation; append = column stack; executed with fresh real leaf samplers under an identical scripted "
               "random source, so composite and reference must agree bit for bit",
               "AppendSampler operands are generated with equal lengths (documented precondition)"]
BOUNDS = {"quick": {"depth": 1, "n": [1, 2, 3, 5], "k": [0, 1, 2, 3], "history": 3},
          "thorough": {"depth": 2, "n": [1, 2, 3, 5, 7], "k": [0, 1, 2, 3, 4], "history": 4}}
ITEM_LIMIT = {"quick": 600, "thorough": 1800}

DOMS = {
    "I_t": L.I(0, L.aff(1, t=1)),
    "C_t": L.C_MOVE,
    "SQ": L.SQ,
    "I01": L.I01,
    "Tr_t": L.Tr(L.SLP, [L.aff(0, t=1), 0.5]),
    "Rot_t": L.Rot(L.SQ, L.aff(0, t=1)),
    "Cut_t": L.Cut(L.SQ, L.G_CMOVE, contained=True),
    "Int_t": L.N(L.C_GROW, L.SQ),
    "U_ov": L.U(L.SQ, L.G_C),                     # overlapping union (grid points of A inside B are replaced)
    "U_ov_t": L.U(L.SQ_MOVE, L.G_C),
    "dC_t": L.B(L.C_MOVE),
    "dCut_t": L.B(L.Cut(L.SQ, L.G_CMOVE, contained=True)),
    "dI_t": L.B(L.I(0, L.aff(1, t=1))),
    # product DOMAINS that still need an external parameter (dependent first factor / parameter in the second factor)
    "PD_st": L.X(L.C_ST, L.I(0, 1, var="s")),
    "PD_s": L.X(L.I_STEEP, L.I(0, L.aff(0.5, s=0.5), var="t")),
    "T": L.IT,
    "S": L.I(0, 1, var="s"),
    "Y": L.I(0, 2, var="y"),
}
SOLID = {k for k, v in DOMS.items() if G.is_solid(v)}


def leaf(kind, dom, n, **kw):
    d = {"s": kind, "dom": dom, "n": n}
    d.update(kw)
    return d


def tshow(t):
    s = t["s"]
    if s in ("ru", "grid", "gauss", "lhs", "exp"):
        return "%s(%s,%d%s)%s" % (s, t["dom"], t["n"], (",fp" if t.get("filter") == "param" else ",f") if t.get("filter") else "", "!" if t.get("static") else "")
    if s == "data":
        return "data(%s%d,%d)" % (t["var"], t["dim"], t["rows"])
    if s == "empty":
        return "empty"
    if s == "static":
        return "static(%s)" % tshow(t["a"])
    return "(%s %s %s)" % (tshow(t["a"]), {"prod": "*", "sum": "+", "append": "++"}[s], tshow(t["b"]))


def t_space(t):
    """ordered space variables a parameter-free call of the term returns (domain variables only)"""
    s = t["s"]
    if s in ("ru", "grid", "gauss", "lhs", "exp"):
        return list(G.space_vars(DOMS[t["dom"]]))
    if s == "data":
        return [(t["var"], t["dim"])]
    if s == "empty":
        return []
    if s == "static":
        return t_space(t["a"])
    if s == "prod":
        return t_space(t["a"]) + [v for v in t_space(t["b"]) if v not in t_space(t["a"])]
    if s == "sum":
        return t_space(t["a"])
    return t_space(t["a"]) + t_space(t["b"])


def t_free(t):
    s = t["s"]
    if s in ("ru", "grid", "gauss", "lhs", "exp"):
        return set(G.free_vars(DOMS[t["dom"]]))
    if s in ("data", "empty"):
        return set()
    if s == "static":
        return t_free(t["a"])
    if s == "prod":
        return (t_free(t["a"]) - {v for v, _ in t_space(t["b"])}) | t_free(t["b"])
    return t_free(t["a"]) | t_free(t["b"])


def leaves(tier):
    out = []
    ns = BOUNDS[tier]["n"]
    for dom in DOMS:
        for n in ns:
            if tier == "quick" and n == 2 and dom not in ("I_t", "C_t", "Tr_t"):
                continue
            out.append(leaf("ru", dom, n))
            out.append(leaf("grid", dom, n))
        out.append(leaf("ru", dom, 3, filter=True))
        out.append(leaf("grid", dom, 3, filter=True))
        if dom in ("I_t", "C_t", "Tr_t"):
            out.append(leaf("ru", dom, 3, filter="param"))
            out.append(leaf("grid", dom, 3, filter="param"))
        if dom in SOLID:
            out.append(leaf("gauss", dom, 3))
            out.append(leaf("lhs", dom, 3))
            out.append(leaf("lhs", dom, 1))
    out += [leaf("exp", "I_t", 3), leaf("exp", "I01", 4),
            {"s": "data", "var": "x", "dim": 1, "rows": 4}, {"s": "data", "var": "x", "dim": 2, "rows": 3},
            {"s": "data", "var": "u", "dim": 1, "rows": 1}]
    return out


def composites(tier):
    out = []
    firsts = [leaf("ru", "I_t", 3), leaf("grid", "I_t", 2), leaf("ru", "C_t", 2), leaf("grid", "C_t", 3),
              leaf("ru", "SQ", 2), leaf("grid", "SQ", 4), leaf("ru", "Tr_t", 3), leaf("ru", "Rot_t", 2),
              leaf("ru", "Cut_t", 2), leaf("grid", "Cut_t", 3), leaf("ru", "dC_t", 3), leaf("grid", "dCut_t", 2),
              leaf("ru", "Int_t", 1), leaf("gauss", "C_t", 2), leaf("lhs", "I_t", 2), leaf("ru", "I_t", 2, filter=True),
              leaf("exp", "I_t", 3), {"s": "data", "var": "x", "dim": 2, "rows": 3},
              leaf("grid", "dI_t", 2)]
    seconds = [leaf("ru", "T", 2), leaf("grid", "T", 3), leaf("ru", "T", 1), leaf("grid", "T", 2, static=True),
               {"s": "data", "var": "t", "dim": 1, "rows": 2}]
    for a in firsts:
        for b in seconds:
            out.append({"s": "prod", "a": a, "b": b})
    # sums (same space), appends (disjoint spaces, equal lengths), statics
    out += [{"s": "sum", "a": leaf("ru", "I_t", 2), "b": leaf("grid", "I_t", 3)},
            {"s": "sum", "a": leaf("grid", "C_t", 3), "b": leaf("ru", "C_t", 1)},
            {"s": "sum", "a": leaf("ru", "SQ", 2), "b": leaf("grid", "SQ", 4)},
            {"s": "sum", "a": leaf("ru", "Cut_t", 2), "b": leaf("ru", "Cut_t", 3, filter=True)},
            {"s": "sum", "a": leaf("grid", "SQ", 3), "b": {"s": "empty"}},
            {"s": "append", "a": leaf("ru", "SQ", 3), "b": leaf("grid", "Y", 3)},
            {"s": "append", "a": leaf("grid", "I_t", 2), "b": leaf("ru", "Y", 2)},
            {"s": "append", "a": leaf("ru", "C_t", 4), "b": leaf("ru", "S", 4)},
            {"s": "static", "a": leaf("ru", "I_t", 3)}, {"s": "static", "a": leaf("grid", "C_t", 3)},
            {"s": "static", "a": {"s": "prod", "a": leaf("ru", "I_t", 2), "b": leaf("grid", "T", 2)}}]
    if tier == "thorough":
        ab = [{"s": "prod", "a": a, "b": b} for a in firsts[:8] for b in seconds[:2]]
        for p in ab:
            out.append({"s": "prod", "a": p, "b": leaf("ru", "S", 2)})
            out.append({"s": "sum", "a": p, "b": p})
            out.append({"s": "append", "a": p, "b": leaf("grid", "Y", len_of(p))})
            out.append({"s": "static", "a": {"s": "sum", "a": p, "b": p}})
        out.append({"s": "prod", "a": leaf("ru", "SQ", 2), "b": {"s": "prod", "a": leaf("ru", "I_t", 2).copy() | {"dom": "Y"}, "b": leaf("grid", "T", 2)}})
        out.append({"s": "prod", "a": {"s": "sum", "a": leaf("ru", "C_t", 2), "b": leaf("grid", "C_t", 2)}, "b": leaf("ru", "T", 2)})
        out.append({"s": "prod", "a": {"s": "append", "a": leaf("ru", "I_t", 2), "b": leaf("ru", "Y", 2)}, "b": leaf("grid", "T", 2)})
    return out


def len_of(t):
    s = t["s"]
    if s in ("ru", "grid", "gauss", "lhs", "exp"):
        return t["n"]
    if s == "data":
        return t["rows"]
    if s == "empty":
        return 0
    if s == "static":
        return len_of(t["a"])
    if s == "prod":
        return len_of(t["a"]) * len_of(t["b"])
    if s == "sum":
        return len_of(t["a"]) + len_of(t["b"])
    return len_of(t["a"])


SCAN = {"rect12": L.P([0.0, 0.0], [1.0, 0.0], [0.0, 2.0]), "rect31": L.P([0.0, 0.0], [3.0, 0.0], [0.0, 1.0]), "SLP": L.SLP, "TSL": L.TSL,
        "C2": L.C2, "I2": L.I2, "S2": L.S2, "dSLP": L.B(L.SLP), "dC2": L.B(L.C2), "LSH": L.LSH}


def items(tier):
    terms = leaves(tier) + composites(tier)
    out = [{"name": tshow(t), "term": t, "tier": tier} for t in terms]
    # every requested count: grid and random samplers return exactly n rows for n = 1 .. 60 (thorough 150)
    for nm in SCAN:
        out.append({"name": "count-scan|%s" % nm, "scan": nm, "tier": tier, "term": None, "cost": 3})
    for nm in ROWS:
        out.append({"name": "domain-rows|%s" % nm, "rows": nm, "tier": tier, "term": None, "cost": 2})
    return out


# domain-level grid sampling with SEVERAL parameter rows in one call (the sampler layer passes one row at a time, a user
# may pass a batch): rows i*n..(i+1)*n-1 are the grid of the domain at parameter row i, i.e. the same point set as a call
# with row i alone.  Shapes whose grid is deterministic only (no random top-up), so that the two calls are comparable.
ROWS = {
    "Tr(SLP)": L.Tr(L.SLP, [L.aff(0, t=1), 0.5]), "Tr2(SQ)": L.Tr(L.SQ, [L.aff(0.2, t=1), L.aff(0, t=-0.5)]),
    "Tr(I01)": L.Tr(L.I01, [L.aff(0, t=1)]), "Rot(SQ)": L.Rot(L.SQ, L.aff(0, t=1)), "SQ_MOVE": L.SQ_MOVE, "I_MOVE": L.I_MOVE,
    "dTr(SLP)": L.B(L.Tr(L.SLP, [L.aff(0, t=1), 0.5])), "dTr(C1)": L.B(L.Tr(L.C1, [L.aff(0, t=1), 0.5])), "dC_t": L.B(L.C_MOVE),
    "dRot(SQ)": L.B(L.Rot(L.SQ, L.aff(0, t=1))),
}


def run_rows(item):
    res = {"evals": 0, "transitions": 0, "states": [], "outcomes": [], "violations": [], "rejected": 0, "samples": [], "traces": 0}
    a = ROWS[item["rows"]]
    bad = {}

    def grid(n, tvals, free=False):
        if free:       # the library's own random source: a grid with a randomly topped-up part comes out differently
            torch.manual_seed(123)
            P = Bd.build_tp(a).sample_grid(n=n, params=Bd.params_points({"t": list(tvals)}))
        else:
            with Seam(budget=20000):
                P = Bd.build_tp(a).sample_grid(n=n, params=Bd.params_points({"t": list(tvals)}))
        sp_vars = [v for v in P.space.keys() if v != "t"]
        return P[:, sp_vars].as_tensor.double().numpy()

    def canon(x):
        x = np.round(np.asarray(x, dtype=np.float64), 5)
        return x[np.lexsort(x.T[::-1])]
    for tv in ((0.0, 1.0), (1.0, 0.0), (0.25, 0.5, 1.0), (0.5, 0.5)):
        for n in (1, 2, 3, 4, 6, 9):
            st = "%s|t=%s|n=%d" % (item["rows"], tv, n)
            res["states"].append(st)
            res["transitions"] += 1
            try:
                single = [grid(n, (t,)) for t in tv]
                again = grid(n, (tv[0],), free=True)
                if len(single[0]) != n or not np.allclose(canon(single[0]), canon(again), atol=1e-5):
                    res["rejected"] += 1          # not a deterministic n-point grid (random top-up): not comparable
                    continue
                batch = grid(n, tv)
            except Exception as e:
                res["rejected"] += 1              # several rows in one domain-level call may be refused
                continue
            res["evals"] += len(tv) + 2
            if len(batch) != n * len(tv):
                bad.setdefault("C02|domain-rows|count", []).append("%s: %d rows for n=%d and %d parameter rows" % (st, len(batch), n, len(tv)))
                continue
            ok = True
            for i in range(len(tv)):
                blk = batch[i * n:(i + 1) * n]
                if not np.allclose(canon(blk), canon(single[i]), atol=2e-5):
                    bad.setdefault("C02|domain-rows|block", []).append("%s: rows %d..%d are %s, the grid at parameter row %d alone is %s" % (
                        st, i * n, (i + 1) * n - 1, canon(blk)[:3].tolist(), i, canon(single[i])[:3].tolist()))
                    ok = False
                    break
            if ok:
                res["outcomes"].append(st)
    for key, lst in bad.items():
        res["violations"].append({"key": key + "|" + item["rows"], "what": "%s: %s" % (item["name"], "; ".join(lst[:3])), "detail": {"item": item["name"]}})
    res["samples"] = [{"rows": item["rows"]}]
    return res


def run_scan(item):
    res = {"evals": 0, "transitions": 0, "states": [], "outcomes": [], "violations": [], "rejected": 0, "samples": [], "traces": 0}
    a = SCAN[item["scan"]]
    top = 60 if item["tier"] == "quick" else 150
    bad = {}
    for kind in ("grid", "ru"):
        for n in range(1, top + 1):
            res["states"].append("%s|%s|n=%d" % (item["scan"], kind, n))
            res["evals"] += 1
            res["transitions"] += 1
            try:
                with Seam(budget=20000):
                    smp = (tp.samplers.GridSampler if kind == "grid" else tp.samplers.RandomUniformSampler)(Bd.build_tp(a), n_points=n)
                    out = smp.sample_points()
                    ln = len(smp)
            except Exception as e:
                if is_deliberate(e):
                    res["rejected"] += 1
                    continue
                bad.setdefault("C02|error|%s|count-scan|%s" % (type(e).__name__, kind), []).append("n=%d: %s" % (n, str(e)[:60]))
                continue
            if len(out) != n or ln != n:
                bad.setdefault("C02|rows|%s|count-scan" % kind, []).append("n=%d -> %d rows (len(sampler)=%d)" % (n, len(out), ln))
            else:
                res["outcomes"].append("%s|%s|n=%d" % (item["scan"], kind, n))
    for key, lst in bad.items():
        res["violations"].append({"key": key, "what": "%s: %s" % (item["name"], "; ".join(lst[:6])), "detail": {"item": item["name"]}})
    res["samples"] = [{"scan": item["scan"], "counts": top}]
    return res


# ------------------------------------------------------------------------------------------
def build_sampler(t):
    S = tp.samplers
    s = t["s"]
    if s in ("ru", "grid", "gauss", "lhs", "exp"):
        a = DOMS[t["dom"]]
        D = Bd.build_tp(a)
        filt = None
        if t.get("filter"):
            filt = _half_filter(a)
            if t.get("filter") == "param":
                # the filter also names the external parameter t, with a declared default that must NOT be used when the
                # parameter rows supply t: with the default (-10) it would let every point pass
                c_ = filt._c
                var_ = G.space_vars(a)[0][0]
                filt = eval("lambda %s, t=-10.0: (%s[:, :1] <= %r) | (t < -5.0)" % (var_, var_, c_))
                filt._c = c_
        if s == "ru":
            out = S.RandomUniformSampler(D, n_points=t["n"], filter_fn=filt)
        elif s == "grid":
            out = S.GridSampler(D, n_points=t["n"], filter_fn=filt)
        elif s == "gauss":
            box = hull_box(a, theta_rows(G.free_vars(a)))
            out = S.GaussianSampler(D, n_points=t["n"], mean=[float(c) for c in box.mean(1)],
                                    std=float(0.35 * (box[:, 1] - box[:, 0]).max()))
        elif s == "lhs":
            out = S.LHSSampler(D, n_points=t["n"])
        else:
            out = S.ExponentialIntervalSampler(D, n_points=t["n"], exponent=2.0)
        return out.make_static() if t.get("static") else out
    if s == "data":
        r, d = t["rows"], t["dim"]
        data = torch.arange(r * d, dtype=torch.float32).reshape(r, d) / (r * d) * 0.5 + 0.25
        return S.DataSampler({t["var"]: data})
    if s == "empty":
        return S.EmptySampler()
    if s == "static":
        return build_sampler(t["a"]).make_static()
    A, Bs = build_sampler(t["a"]), build_sampler(t["b"])
    if s == "prod":
        return A * Bs
    if s == "sum":
        return A + Bs
    return A.append(Bs)


def _half_filter(a):
    """keep the half of the domain left of the smallest box centre over the parameter lattice"""
    var = G.space_vars(a)[0][0]
    c = max(float(G.ref_box(a, vals_of_theta(th, 1))[0][0].mean()) for th in theta_rows(G.free_vars(a)))
    f = eval("lambda %s: %s[:, :1] <= %r" % (var, var, c))
    f._c = c
    return f


def ref_sample(t, params, leaf_check):
    """reference algebra over real leaf samplers; returns Points"""
    s = t["s"]
    if s in ("ru", "grid", "gauss", "lhs", "exp", "data", "empty"):
        smp = build_sampler(t)
        out = smp.sample_points(params)
        leaf_check(t, smp, params, out)
        return out
    if s == "static":
        return ref_sample(t["a"], params, leaf_check)
    if s == "prod":
        bp = ref_sample(t["b"], params, leaf_check)
        return ref_sample(t["a"], bp, leaf_check)
    pa = ref_sample(t["a"], params, leaf_check)
    pb = ref_sample(t["b"], params, leaf_check)
    if s == "sum":
        if pa.isempty:
            return pb
        if pb.isempty:
            return pa
        return Points(torch.cat([pa.as_tensor, pb.as_tensor], 0), pa.space)
    return Points(torch.cat([pa.as_tensor, pb.as_tensor], -1), Space(dict(list(pa.space.items()) + list(pb.space.items()))))


def run_item(item):
    if item.get("scan"):
        return run_scan(item)
    if item.get("rows"):
        return run_rows(item)
    t, tier = item["term"], item["tier"]
    name = item["name"]
    res = {"evals": 0, "transitions": 0, "states": [], "outcomes": [], "violations": [], "rejected": 0, "samples": [],
           "traces": 0}
    seen = set()

    def viol(key, what, detail=None):
        if key in seen:
            return
        seen.add(key)
        res["violations"].append({"key": key, "what": "%s: %s" % (name, what), "detail": detail or {"term": t}})

    fv = sorted(t_free(t))
    kind = t["s"] if t["s"] in ("prod", "sum", "append", "static") else "%s%s" % (t["s"], "+filter" if t.get("filter") else "")
    domk = top_sig(DOMS[t["dom"]]) if "dom" in t else "-"

    def leaf_check(lt, smp, params, out):
        """structural oracle for one leaf call"""
        ls = lt["s"]
        lk = "%s%s" % (ls, "+filter" if lt.get("filter") else "")
        ldom = top_sig(DOMS[lt["dom"]]) if "dom" in lt else "-"
        k = len(params) if not params.isempty else 0
        if ls == "empty":
            return
        n = lt["n"] if "n" in lt else lt["rows"]
        exp_rows = n * max(k, 1)
        tt = out.as_tensor
        if tt.dim() != 2:
            viol("C02|shape|%s|%s" % (lk, ldom), "leaf %s returned a %d-D tensor %s" % (tshow(lt), tt.dim(), tuple(tt.shape)))
            return
        qual = ("|n=1" if n == 1 else "") + ("|k=0" if k == 0 else "")
        if len(tt) != exp_rows:
            viol("C02|rows|%s|%s%s" % (lk, ldom, qual),
                 "leaf %s with %d parameter row(s) returned %d rows, expected %d" % (tshow(lt), k, len(tt), exp_rows))
            return
        dom_space = t_space(lt)
        exp_space = [v for v, _ in dom_space] + [v for v in params.space.keys()]
        if list(out.space.keys()) != exp_space:
            viol("C02|space|%s|%s" % (lk, ldom), "leaf %s returned space %s, expected %s" % (tshow(lt), list(out.space.keys()), exp_space))
            return
        if k:
            c0 = sum(d for _, d in dom_space)
            carried = tt[:, c0:]
            expect = params.as_tensor.repeat_interleave(n, dim=0)
            if not torch.equal(carried, expect):
                bad = int((carried != expect).any(1).nonzero()[0])
                viol("C02|pairing|%s|%s" % (lk, ldom), "leaf %s: row %d does not carry parameter row %d unchanged (%s vs %s)" % (
                    tshow(lt), bad, bad // n, carried[bad].tolist(), expect[bad].tolist()))
                return
        if "dom" in lt:
            a = DOMS[lt["dom"]]
            vals = Bd.to_vals(out)
            need = G.free_vars(a)
            if all(v in vals for v in need):
                box = hull_box(a, theta_rows(need))
                ok = G.member(a, vals, TOL_ON * scale_of(box))
                if not ok.all():
                    i = int(np.where(~ok)[0][0])
                    viol("C02|mispaired-point|%s|%s" % (lk, ldom),
                         "leaf %s: row %d is not in the domain evaluated at its own parameter row: %s" % (
                             tshow(lt), i, {v: vals[v][i].tolist() for v in vals}))
            if lt.get("filter"):
                c = _half_filter(a)._c
                var = G.space_vars(a)[0][0]
                if (vals[var][:, 0] > c + 1e-6).any():
                    viol("C02|filter|%s|%s" % (lk, ldom), "leaf %s returned points violating its filter" % tshow(lt))
            if ls == "grid" and not lt.get("filter") and not need and k > 1:
                c0 = sum(d for _, d in dom_space)
                blocks = tt[:, :c0].reshape(k, n, c0)
                if not all(torch.equal(blocks[0], blocks[i]) for i in range(1, k)):
                    viol("C02|grid-not-repeated|%s|%s" % (lk, ldom), "grid leaf %s: blocks for different parameter rows differ" % tshow(lt))
        try:
            ln = len(smp)
            if k == 0 and ln != len(tt):
                viol("C02|len|%s|%s" % (lk, ldom), "len(sampler)=%d but a parameter-free call returned %d rows" % (ln, len(tt)))
        except ValueError:
            pass

    tvals = [0.5, 1.0, 0.25, 0.75]
    for k in BOUNDS[tier]["k"]:
        if fv and k == 0:
            continue
        if k == 0:
            params_rows = {}
        else:
            # parameters: the free variables (distinct values per row) plus a pure tag column w
            params_rows = {v: tvals[:k] for v in fv}
            params_rows["w"] = [10.0 * (i + 1) for i in range(k)]
        state = "%s|k=%d" % (name, k)
        res["states"].append(state)
        # ---- real composite: history of 3 calls on ONE sampler object ---------------------
        try:
            smp = build_sampler(t)
        except Exception as e:
            if is_deliberate(e):
                res["rejected"] += 1
                continue
            viol("C02|error|%s|%s|%s|build" % (type(e).__name__, kind, domk), "building raised %s: %s" % (exc_sig(e), e))
            continue
        len_before = None
        try:
            len_before = len(smp)
        except ValueError:
            pass
        except Exception as e:
            viol("C02|error|%s|%s|%s|len" % (type(e).__name__, kind, domk), "len() raised %s" % exc_sig(e))
        outs, refs = [], []
        for call in range(BOUNDS[tier]["history"]):
            prm = Bd.params_points(params_rows)
            res["transitions"] += 1
            res["evals"] += 1
            try:
                with Seam() as sm:
                    out = smp.sample_points(prm)
                out = Points(out.as_tensor.clone(), out.space)
            except SeamBudget as e:
                viol("C02|nontermination|%s|%s" % (kind, domk), "call %d with k=%d did not terminate" % (call, k))
                break
            except Exception as e:
                if is_deliberate(e):
                    res["rejected"] += 1
                    break
                qual = "|k=0" if k == 0 else ""
                viol("C02|error|%s|%s|%s%s" % (type(e).__name__, kind, domk, qual),
                     "call %d with %d parameter row(s) raised %s: %s" % (call, k, exc_sig(e), str(e)[:160]), {"term": t, "k": k})
                break
            outs.append(out)
            # ---- reference: fresh leaves, same algebra, same scripted random source -------
            is_static = t["s"] == "static" or t.get("static")
            if is_static and call > 0:
                ref = refs[0]
            else:
                try:
                    with Seam():
                        ref = ref_sample(t, Bd.params_points(params_rows), leaf_check)
                except Exception as e:
                    if not is_deliberate(e):
                        viol("C02|error|%s|%s|%s|reference-run" % (type(e).__name__, kind, domk),
                             "leaf call inside the reference algebra raised %s: %s" % (exc_sig(e), str(e)[:160]))
                    break
            refs.append(ref)
            res["traces"] += 1
            if list(out.space.items()) != list(ref.space.items()):
                viol("C02|algebra-space|%s" % kind, "call %d k=%d: composite space %s, reference algebra %s" % (
                    call, k, dict(out.space), dict(ref.space)))
                break
            if out.as_tensor.shape != ref.as_tensor.shape:
                viol("C02|algebra-rows|%s" % kind, "call %d k=%d: composite returned %s rows, reference algebra %s" % (
                    call, k, tuple(out.as_tensor.shape), tuple(ref.as_tensor.shape)))
                break
            if not torch.equal(out.as_tensor, ref.as_tensor):
                bad = int((out.as_tensor != ref.as_tensor).any(1).nonzero()[0])
                viol("C02|algebra-values|%s" % kind, "call %d k=%d: row %d is %s, reference algebra gives %s" % (
                    call, k, bad, out.as_tensor[bad].tolist(), ref.as_tensor[bad].tolist()))
                break
            if len(out):
                res["outcomes"].append("%s|call%d|%d" % (state, call, len(out)))
            try:
                ln = len(smp)
                if k == 0 and ln != len(out):
                    viol("C02|len|%s|%s" % (kind, domk), "after call %d len(sampler)=%d but the parameter-free call returned %d rows" % (call, ln, len(out)))
            except ValueError:
                pass
            except Exception as e:
                viol("C02|error|%s|%s|%s|len" % (type(e).__name__, kind, domk), "len() raised %s" % exc_sig(e))
        if k == 0 and len_before is not None and outs and len_before != len(outs[0]):
            viol("C02|len-before|%s|%s" % (kind, domk), "len(sampler)=%d before the first call, first parameter-free call returned %d rows" % (len_before, len(outs[0])))
    res["samples"] = [{"term": name, "free": fv}]
    return res
