"""C18 -- the bounding box encloses the domain (and is tight for primitives); consumers."""
import numpy as np
import torch
import torchphysics as tp

from ..kernel.seam import Seam, SeamBudget
from ..ref import geom as G
from ..ref import build as Bd
from ..ref import lattice as L
from .geo_common import *  # noqa

PROP = "C18"
LEVEL = "model_checking"
TECHNIQUE = ("bounded-exhaustive enumeration of domain expressions (all lattice rotation angles) x parameter batches; the box "
             "is checked against every reference member of a query lattice, reference extreme points and the library's own "
             "samples; NormalizationLayer and LHS proposals are driven as consumers")
RULE = ("every DEL expression x parameter batches k in 0..3; known members = reference-lattice members, reference boundary/"
        "extreme points and library samples accepted by the reference; distinct by (expression, batch); non-trivial when at "
        "least 5 members were available")
ASSUMPTIONS = ["reference membership tpmc/ref/geom.py decides which points are members; tolerance 1e-4*scale",
               "a (k, 2d) result is read as one box per parameter row, a flat result as one box for all rows"]
BOUNDS = {"quick": {"k": [0, 1, 2, 3], "angles": L.ANGLES}, "thorough": {"k": [0, 1, 2, 3], "angles": L.ANGLES}}
ITEM_LIMIT = {"quick": 600, "thorough": 1800}


def items(tier):
    exprs = L.solids(tier) + L.products(tier)
    exprs += [L.Rot(L.SQ, ang) for ang in L.ANGLES] + [L.Rot(L.SLP, ang, around=[0.5, 0.5]) for ang in L.ANGLES]
    exprs += [L.Rot(L.C2, ang, around=[1, 0]) for ang in L.ANGLES] + [L.Rot(L.TSL, L.aff(0, t=2.3))]
    exprs += [L.B(a) for a in L.leaves2(tier)[:8]] + [L.B(L.Rot(L.SQ, 0.5)), L.B(L.Cut(L.SQ, L.G_C)), L.BL(L.I_MOVE), L.BR(L.I_GROW)]
    exprs += [L.Pt([0.3, 0.4]), L.Pt([L.aff(0, t=1), 0.5])]
    # unions whose operands have a lower dimension than their space (lines, end points, points)
    exprs += L.lowdim_unions(tier)
    return [{"name": G.show(a), "ast": a, "tier": tier} for a in L.dedupe(exprs)]


def _dependent(a):
    if a["k"] == "prod":
        if G.free_vars(a["a"]) & {v for v, _ in G.space_vars(a["b"])}:
            return True
    return any(_dependent(v) for v in a.values() if isinstance(v, dict))


def as_boxes(raw, k, D):
    """-> (rows, D, 2) array; rows = 1 (one box for everything) or k (one per parameter row)"""
    t = torch.as_tensor(raw).detach().double()
    if t.dim() == 1 and t.numel() == 2 * D:
        return t.reshape(1, D, 2).numpy()
    if t.dim() == 2 and t.shape[1] == 2 * D and t.shape[0] in (1, max(k, 1)):
        return t.reshape(t.shape[0], D, 2).numpy()
    return None


def run_item(item):
    a, tier = item["ast"], item["tier"]
    name = item["name"]
    res = {"evals": 0, "transitions": 0, "states": [], "outcomes": [], "violations": [], "rejected": 0, "samples": []}
    seen = set()

    def viol(key, what, detail=None):
        if key in seen:
            return
        seen.add(key)
        res["violations"].append({"key": key, "what": "%s: %s" % (name, what), "detail": detail or {"ast": a}})

    fv = sorted(G.free_vars(a))
    try:
        D = Bd.build_tp(a)
    except Exception as e:
        if is_deliberate(e):
            res["rejected"] += 1
            return res
        viol("C18|error|%s|constructor|%s" % (type(e).__name__, top_sig(a)), "constructor raised %s" % exc_sig(e))
        return res
    dimD = sum(d for _, d in G.space_vars(a))
    solid = G.is_solid(a)
    is_prod = G.has_kind_prod(a)
    order = space_order(a)
    dep_prod = is_prod and _dependent(a)

    def members_at(th):
        """points known (by the reference) to belong to the domain at parameter row th"""
        row = vals_of_theta(th, 1)
        box = G.ref_box(a, row)[0]
        scale = scale_of(box)
        pts = []
        if solid:
            Q = lattice_points(box, inflate=0.02, m2=25, m1=41, m3=9)
            vals = split_space(a, Q)
            vals.update({v: np.full((len(Q), 1), x) for v, x in th.items()})
            pts.append(Q[G.sdf(a, vals) <= 0])
        if not is_prod and a["k"] not in ("point", "bleft", "bright"):
            inner = a["a"] if a["k"] == "boundary" else a
            cand = []
            s = (np.arange(64) + 0.5) / 64
            for lf, maps in G.leaves(inner):
                if lf["k"] == "point":
                    pv = lf["p"]
                    p = (G.evv(pv, row, 1) if isinstance(pv, list) and not G.is_aff(pv) else G.ev(pv, row, 1)[:, None])
                else:
                    p = G.boundary_points(lf, row, s)
                for mp in reversed(maps):
                    p = G.pushforward(mp, p, {kk: np.broadcast_to(vv, (len(p), 1)) for kk, vv in row.items()})
                cand.append(p)
            cand = np.concatenate(cand)
            vals = split_space(a, cand)
            vals.update({v: np.full((len(cand), 1), x) for v, x in th.items()})
            pts.append(cand[G.member(a, vals, 1e-9 * scale) if not solid else (G.sdf(a, vals) <= 1e-12)])
        # library samples accepted by the reference
        prm = Bd.params_points({v: [x] for v, x in th.items()}) if th else Points.empty()
        for mode in ("random", "grid"):
            try:
                with Seam():
                    S = (Bd.build_tp(a).sample_random_uniform(n=64, params=prm) if mode == "random"
                         else Bd.build_tp(a).sample_grid(n=40, params=prm))
                vals = Bd.to_vals(S)
                vals.update({v: np.full((len(S), 1), x) for v, x in th.items()})
                ok = G.member(a, vals, 0.0 if solid else TOL_ON * scale)
                arr = np.concatenate([vals[v] for v in order], 1)
                pts.append(arr[ok])
            except Exception:
                pass
        pts = [p for p in pts if len(p)]
        return (np.concatenate(pts) if pts else np.zeros((0, dimD))), box, scale

    for batch in (L.param_batches(fv) if fv else [{}]):
        k = len(batch[fv[0]]) if fv else 0
        st = "%s|%s" % (name, batch)
        res["states"].append(st)
        rows = [dict((v, batch[v][i]) for v in fv) for i in range(k)] if fv else [{}]
        rows = [r for r in rows if L.positive_measure(a, r)]
        if not rows:
            continue
        prm = Bd.params_points(batch) if batch else Points.empty()
        res["transitions"] += 1
        res["evals"] += 1
        try:
            with Seam():       # dependent products sample their second factor to estimate the box
                raw = D.bounding_box(prm) if batch else D.bounding_box()
        except Exception as e:
            if is_deliberate(e):
                res["rejected"] += 1
                continue
            viol("C18|error|%s|bounding_box|%s%s" % (type(e).__name__, top_sig(a), "|k2+" if k > 1 else ""),
                 "bounding_box(%s) raised %s: %s" % (batch, exc_sig(e), str(e)[:120]))
            continue
        boxes = as_boxes(raw, k, dimD)
        if boxes is None:
            viol("C18|box-shape|%s" % top_sig(a), "bounding_box(%s) returned shape %s" % (batch, tuple(torch.as_tensor(raw).shape)))
            continue
        if (boxes[..., 0] > boxes[..., 1]).any():
            viol("C18|min-greater-max|%s" % top_sig(a), "bounding_box(%s) = %s has min > max" % (batch, boxes.tolist()))
            continue
        allrows = [dict((v, batch[v][i]) for v in fv) for i in range(k)] if fv else [{}]
        nmem = 0
        for i, th in enumerate(allrows):
            if th not in rows:
                continue
            mem, rbox, scale = members_at(th)
            nmem += len(mem)
            bx = boxes[i] if len(boxes) > 1 else boxes[0]
            tol = TOL_ON * scale
            if len(mem):
                out = (mem < bx[:, 0] - tol) | (mem > bx[:, 1] + tol)
                if out.any():
                    j = int(np.where(out.any(1))[0][0])
                    viol("C18|member-outside-box|%s" % ("dependent-product" if dep_prod else "%s|%s" % (top_sig(a), "+".join(sorted(leaf_flavors(a))))),
                         "bounding_box(%s) = %s does not contain the member %s of parameter row %s (%d of %d members outside)" % (
                             batch, np.round(bx, 4).tolist(), mem[j].tolist(), th, int(out.any(1).sum()), len(mem)))
            if (a["k"] in G.PRIMS or (a["k"] == "boundary" and a["a"]["k"] in G.PRIMS)) and k <= 1 and a["k"] != "point":
                if not np.allclose(bx, rbox, atol=1e-5 * scale, rtol=1e-5):
                    viol("C18|not-tight|%s" % kind_sig(a), "bounding_box(%s) = %s, exact box %s" % (batch, np.round(bx, 5).tolist(), np.round(rbox, 5).tolist()))
        if nmem >= 5:
            res["outcomes"].append(st)

    # consumer: NormalizationLayer maps the domain into [-1,1]^d (parameter-free domains)
    if not fv and a["k"] != "point":
        res["evals"] += 1
        try:
            with Seam():
                layer = tp.models.NormalizationLayer(Bd.build_tp(a))
            mem, rbox, scale = members_at({})
            if len(mem):
                P = Bd.points_of(split_space(a, mem), order)
                y = layer(P).as_tensor.detach().double().numpy()
                if np.abs(y).max() > 1 + 1e-4:
                    j = int(np.argmax(np.abs(y).max(1)))
                    viol("C18|normalization-outside|%s" % ("dependent-product" if dep_prod else top_sig(a)), "NormalizationLayer maps the member %s to %s" % (mem[j].tolist(), y[j].tolist()))
                else:
                    res["outcomes"].append(name + "|norm")
        except Exception as e:
            if not is_deliberate(e):
                viol("C18|error|%s|NormalizationLayer|%s" % (type(e).__name__, top_sig(a)), "NormalizationLayer(domain) raised %s: %s" % (exc_sig(e), str(e)[:120]))
    res["samples"] = [{"expr": name, "free": fv}]
    return res
