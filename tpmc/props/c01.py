"""C01 -- every sampled point lies in the domain it was sampled from; sampling terminates."""
import numpy as np
import torch
import torchphysics as tp

from ..kernel.seam import Seam, SeamBudget, explore_deviations
from ..ref import geom as G
from ..ref import build as Bd
from ..ref import lattice as L
from .geo_common import *  # noqa

PROP = "C01"
LEVEL = "model_checking"
TECHNIQUE = ("bounded-exhaustive enumeration of domain expressions x sampler entry points x counts x parameter batches, "
             "deviation-bounded exploration of the random source's answers, membership judged by a float64 reference")
RULE = ("every DEL expression x every sampling entry point (domain methods, RandomUniform/Grid/Gaussian/LHS/adaptive/"
        "exponential samplers, with n, density and filter) x n in the tier's set x parameter batches with distinct rows x "
        "every script of random-source answers with <= b deviations from the Sobol-net default; a case is distinct by "
        "(expression, entry, n/d, k, script) and non-trivial when it returned at least one point")
ASSUMPTIONS = ["reference denotation tpmc/ref/geom.py; samples must satisfy it within 1e-4*scale",
               "the random source is owned through torch.rand/rand_like/randperm/normal (seam); trimesh's numpy RNG is outside",
               "termination = fewer than 4000 random draws / 5e6 random numbers per sampling call"]
BOUNDS = {"quick": {"n": [1, 2, 3, 7, 50], "k": [0, 1, 2, 3], "deviations": 1, "deviated_n": [1, 3], "boolean_depth": 1},
          "thorough": {"n": [1, 2, 3, 4, 5, 7, 10, 50, 200], "k": [0, 1, 2, 3], "deviations": 2,
                       "deviated_n": [1, 3], "boolean_depth": 2}}
ITEM_LIMIT = {"quick": 900, "thorough": 3600}

GROUPS = ("domain", "samplers", "special")


def items(tier):
    exprs = L.dedupe(L.solids(tier) + L.boundary_exprs(tier) + L.products(tier) + L.default_exprs(tier) + L.lowdim_unions(tier) + L.mesh_extras(tier))
    out = []
    for a in exprs:
        for g in GROUPS:
            cost = (4 if a["k"] == "boundary" and a["a"]["k"] not in G.PRIMS else 0) + 2 * len(G.free_vars(a)) + \
                   (1 if g == "special" else 0) + G.depth(a)
            out.append({"name": "%s|%s" % (G.show(a), g), "ast": a, "group": g, "tier": tier, "cost": cost})
    return out


# ------------------------------------------------------------------------------------------
def make_filter(c, var):
    c = float(c)
    src = "lambda %s: %s[:, :1] >= %r" % (var, var, c)
    f = eval(src)
    return f, (lambda vals: np.asarray(vals[var])[:, 0] >= c - 1e-6), src


def filter_threshold(a, row):
    """first-coordinate threshold that leaves positive measure of the denoted set at parameter row `row`: the median
    first coordinate of the reference members on a lattice over the (conservative) reference box; the box centre is
    only used for primitives and where no lattice point is a member (the box of a cut or an intersection is not tight)"""
    one = vals_of_theta(row, 1)
    box = G.ref_box(a, one)[0]
    centre = float(box[0].mean())
    s = a["a"] if a["k"] == "boundary" else a
    sv = G.space_vars(s)
    dim = sum(d for _, d in sv)
    if s["k"] in G.PRIMS or not G.is_solid(s) or dim > 3:
        return centre
    sbox = G.ref_box(s, one)[0]
    m = {1: 400, 2: 60, 3: 24}[dim]
    axes = [sbox[i, 0] + (np.arange(m) + 0.5) / m * (sbox[i, 1] - sbox[i, 0]) for i in range(dim)]
    grid = np.stack(np.meshgrid(*axes, indexing="ij"), -1).reshape(-1, dim)
    vals = vals_of_theta(row, len(grid))
    c = 0
    for v, d in sv:
        vals[v] = grid[:, c:c + d]
        c += d
    inside = G.sdf(s, vals) <= 0
    if inside.sum() < 8:
        return centre
    return float(np.median(grid[inside, 0]))


def has_boolean(a):
    if a["k"] in ("union", "cut", "inter"):
        return True
    return any(has_boolean(v) for v in a.values() if isinstance(v, dict))


class Ctx:
    pass


def run_item(item):
    a, group, tier = item["ast"], item["group"], item["tier"]
    name = G.show(a)
    bnd = BOUNDS[tier]
    res = {"evals": 0, "transitions": 0, "states": [], "outcomes": [], "violations": [], "rejected": 0, "samples": [],
           "traces": 0}
    seen_keys = set()

    def viol(key, what, detail):
        if key in seen_keys:
            return
        seen_keys.add(key)
        res["violations"].append({"key": key, "what": "%s: %s" % (name, what), "detail": detail})

    try:
        D0 = Bd.build_tp(a)
    except Exception as e:
        if is_deliberate(e):
            res["rejected"] += 1
            res.update(states=[name], outcomes=[name + "|ctor-rejected", name], evals=1)
            return res
        viol("C01|error|%s|constructor" % exc_sig(e), "constructing the domain raised %s" % e, {"ast": a})
        return res
    fv = sorted(G.free_vars(a))
    thetas_all = theta_rows(fv)
    ok_thetas = [th for th in thetas_all if L.positive_measure(a, th)]
    if not ok_thetas:
        return res
    okset = {tuple(sorted(th.items())) for th in ok_thetas}
    box = hull_box(a, ok_thetas)
    scale = scale_of(box)
    tol = TOL_ON * scale
    solid = G.is_solid(a)
    is_prod = G.has_kind_prod(a)
    is_bnd = not solid
    space_dim = sum(d for _, d in G.space_vars(a))

    batches = [b for b in L.param_batches(fv, one_per_k=(tier == "quick")) if all(
        tuple(sorted((v, b[v][i]) for v in fv)) in okset for i in range(len(b[fv[0]])))] if fv else [{}]
    meas = None
    if fv == []:
        try:
            mm = G.measure(a)
            meas = float(mm[0]) if mm is not None else (G.quad_measure(a, {}) if solid and not is_prod else None)
        except Exception:
            meas = None

    def check_rows(entry, cfg, pts, prm_rows, carried):
        """pts: Points returned.  prm_rows: Points of the k parameter rows given (or empty).
        carried: True when the returned points carry their parameter columns."""
        t = pts.as_tensor
        if t.dim() != 2:
            return ("shape", "returned tensor has shape %s" % (tuple(t.shape),))
        m = len(t)
        vals = Bd.to_vals(pts)
        if not torch.isfinite(t).all():
            return ("nonfinite", "returned non-finite coordinates")
        if fv:
            if carried:
                missing = [v for v in fv if v not in vals]
                if missing:
                    return None
            else:
                k = len(prm_rows)
                pv = Bd.to_vals(prm_rows)
                if k <= 1:
                    for v in fv:
                        vals[v] = np.repeat(pv[v], m, axis=0)
                elif m % k == 0:
                    for v in fv:
                        vals[v] = np.repeat(pv[v], m // k, axis=0)
                else:
                    return None     # unpairable: C02's business
        for v, _ in G.space_vars(a):
            if v not in vals:
                return None
        if m == 0:
            return None
        ok = G.member(a, vals, tol)
        if not ok.all():
            i = int(np.where(~ok)[0][0])
            row = {v: vals[v][i].tolist() for v in vals}
            return ("outside", "%d of %d returned points are not in the set, e.g. %s" % (int((~ok).sum()), m, row))
        return None

    def execute(entry, cfg, fn, prm_rows, carried, deviate, extra_check=None, qual="", errors_ok=False):
        """run fn() under the seam for all scripts with <= b deviations; fn returns Points or list of Points"""
        state = "%s|%s|%s" % (name, entry, cfg)
        res["states"].append(state)

        def run(script):
            res["transitions"] += 1
            res["traces"] += 1
            sm = Seam(script)
            out, err = None, None
            try:
                with sm:
                    out = fn()
            except SeamBudget as e:
                err = ("nontermination", str(e))
            except Exception as e:
                if is_deliberate(e):
                    err = ("rejected", str(e)[:80])
                else:
                    err = ("error", type(e).__name__, "%s: %s" % (exc_sig(e), str(e)[:160]))
            if getattr(sm, "leaked", False):
                err = ("rng-leak", "the global torch generator was consumed outside the seam")
            return sm.calls, (out, err, script)

        # deviate: False/0 = default answers only; True/1 = one deviation; 2 = the tier's full deviation bound
        # (only the domain's own random sampling with few rows); nestings of two operators: default answers only
        level = int(deviate)
        bound = 0 if (level == 0 or G.depth(a) >= 2) else (bnd["deviations"] if level >= 2 else 1)
        for script, (out, err, _) in explore_deviations(run, bound):
            res["evals"] += 1
            sc = ",".join("%d:%s" % kv for kv in sorted(script.items())) or "NET"
            if err:
                if err[0] == "rejected":
                    res["rejected"] += 1
                    continue
                if err[0] == "error" and errors_ok:
                    res["rejected"] += 1          # only what IS returned is judged for this entry point
                    continue
                if err[0] == "error":
                    viol("C01|error|%s|%s|%s%s" % (err[1], entry, top_sig(a), qual),
                         "%s %s raised %s [script %s]" % (entry, cfg, err[2], sc),
                         {"ast": a, "entry": entry, "cfg": cfg, "script": script})
                elif err[0] == "nontermination":
                    viol("C01|nontermination|%s|%s" % (entry.split(":")[0], top_sig(a)),
                         "%s %s did not terminate (%s) [script %s]" % (entry, cfg, err[1], sc),
                         {"ast": a, "entry": entry, "cfg": cfg, "script": script})
                else:
                    viol("C01|%s|%s" % (err[0], entry), err[1], {"ast": a, "entry": entry, "cfg": cfg})
                continue
            outs = out if isinstance(out, list) else [out]
            for step, o in enumerate(outs):
                bad = check_rows(entry, cfg, o, prm_rows, carried)
                if bad:
                    viol("C01|%s|%s|%s|%s" % (bad[0], entry.split(":")[0], top_sig(a), "+".join(sorted(leaf_flavors(a)))),
                         "%s %s%s: %s [script %s]" % (entry, cfg, " call %d" % step if len(outs) > 1 else "", bad[1], sc),
                         {"ast": a, "entry": entry, "cfg": cfg, "script": script})
                    break
                if extra_check is not None:
                    bad = extra_check(o)
                    if bad:
                        viol("C01|filter-violated|%s|%s" % (entry.split(":")[0], top_sig(a)),
                             "%s %s: %s [script %s]" % (entry, cfg, bad, sc), {"ast": a, "entry": entry, "cfg": cfg})
                        break
            if outs and len(outs[0]) > 0:
                res["outcomes"].append("%s|%s" % (state, sc))

    ns = bnd["n"] if G.depth(a) <= 1 else [n_ for n_ in bnd["n"] if n_ in (1, 3, 7)]   # nestings of two operators: three counts
    dev_ns = set(bnd["deviated_n"])
    if space_dim >= 3:
        ns = [n for n in ns if n <= 100]

    def prm_of(batch):
        return Bd.params_points(batch) if batch else Points.empty()

    def densities(batch):
        """densities giving ~3 and ~25 points for a single parameter row (or parameter-free)"""
        if batch and len(batch[fv[0]]) != 1:
            return []
        try:
            vol = float(torch.as_tensor(Bd.build_tp(a).volume(prm_of(batch))).reshape(-1)[0])
        except Exception as e:
            # density sampling starts with volume(): a domain whose volume() raises cannot be sampled by density at all
            if not is_deliberate(e):
                viol("C01|error|%s|volume-for-density|%s" % (type(e).__name__, top_sig(a)),
                     "volume(%s), the first step of every density sampling, raised %s: %s" % (batch, exc_sig(e), str(e)[:140]), {"ast": a})
            return []
        if not np.isfinite(vol) or vol <= 0:
            return []
        return [3.0 / vol, 25.0 / vol]

    # ---------------------------------------------------------------- raw domain methods --
    if group == "domain":
        for batch in batches:
            k = len(batch[fv[0]]) if fv else 0
            for n in ns:
                for meth in ("sample_random_uniform", "sample_grid"):
                    if meth == "sample_grid" and (n > 100 or (k > 1 and (n > 7 or has_boolean(a)))):
                        continue
                    # the sampler layer calls domain.sample_grid with at most one parameter row; called directly with
                    # several rows some primitives raise conversion errors (counted as refusals) -- what is RETURNED for
                    # several rows must still lie in the set, row by row.  Grids of Boolean combinations are built by
                    # helpers written for ONE row (they compare the number of valid grid points with n), so several rows
                    # are only driven through primitives, their boundaries and rigid motions of those
                    D = Bd.build_tp(a)
                    prm = prm_of(batch)
                    execute("domain.%s:n" % meth, "n=%d k=%d %s" % (n, k, batch),
                            (lambda D=D, meth=meth, n=n, prm=prm: getattr(D, meth)(n=n, params=prm)),
                            prm, False, deviate=(2 if k <= 1 else 1) if (n in dev_ns and meth == "sample_random_uniform") else 0,
                            errors_ok=(meth == "sample_grid" and k > 1))
            for d in densities(batch):
                for meth in ("sample_random_uniform", "sample_grid"):
                    D = Bd.build_tp(a)
                    prm = prm_of(batch)
                    execute("domain.%s:d" % meth, "d=%.3g k=%d %s" % (d, k, batch),
                            (lambda D=D, meth=meth, d=d, prm=prm: getattr(D, meth)(d=d, params=prm)),
                            prm, False, deviate=(meth == "sample_random_uniform"))
        return res

    S = tp.samplers
    # ---------------------------------------------------------------- point samplers ------
    if group == "samplers":
        for batch in batches:
            k = len(batch[fv[0]]) if fv else 0
            prm = prm_of(batch)
            # half-plane filter through the left-most median first coordinate of the rows: positive measure for every row
            rows = [dict((v, batch[v][i]) for v in fv) for i in range(k)] if fv else [{}]
            c0 = min(filter_threshold(a, r) for r in rows)
            filt, filt_ref, filt_src = make_filter(c0, G.space_vars(a)[0][0])

            def fcheck(o, filt_ref=filt_ref, filt_src=filt_src):
                vals = Bd.to_vals(o)
                if len(o) and not filt_ref(vals).all():
                    return "returned points violate the filter %s" % filt_src
                return None
            for cls, cname in ((S.RandomUniformSampler, "RandomUniformSampler"), (S.GridSampler, "GridSampler")):
                for n in [x for x in ns if x <= 50]:
                    for use_f in (False, True):
                        if use_f and n not in (3, 7):
                            continue
                        smp = cls(Bd.build_tp(a), n_points=n, filter_fn=filt if use_f else None)
                        execute("%s:n%s" % (cname, "+filter" if use_f else ""), "n=%d k=%d %s" % (n, k, batch),
                                (lambda smp=smp, prm=prm: smp.sample_points(prm)), prm, True,
                                deviate=(n in dev_ns and cname == "RandomUniformSampler" and not use_f),
                                extra_check=fcheck if use_f else None)
                if k <= 1:
                    for d in densities(batch):
                        for use_f in (False, True):
                            smp = cls(Bd.build_tp(a), density=d, filter_fn=filt if use_f else None)
                            execute("%s:d%s" % (cname, "+filter" if use_f else ""), "d=%.3g k=%d %s" % (d, k, batch),
                                    (lambda smp=smp, prm=prm: smp.sample_points(prm)), prm, True, deviate=False,
                                    extra_check=fcheck if use_f else None)
        return res

    # ---------------------------------------------------------------- special samplers ----
    if group == "special":
        ctr = 0.5 * (box[:, 0] + box[:, 1])
        for batch in batches:
            k = len(batch[fv[0]]) if fv else 0
            prm = prm_of(batch)
            for n in [x for x in ns if x <= 50 and x != 2]:
                if not is_prod:
                    std = float(0.35 * (box[:, 1] - box[:, 0]).max())
                    try:
                        smp = S.GaussianSampler(Bd.build_tp(a), n_points=n, mean=[float(c) for c in ctr], std=std)
                    except AssertionError:
                        smp = None
                        res["rejected"] += 1
                    if smp is not None:
                        execute("GaussianSampler", "n=%d k=%d %s" % (n, k, batch),
                                (lambda smp=smp, prm=prm: smp.sample_points(prm)), prm, True, deviate=(n in dev_ns))
                    try:
                        smp = S.LHSSampler(Bd.build_tp(a), n_points=n)
                    except AssertionError:
                        smp = None
                        res["rejected"] += 1
                    if smp is not None:
                        execute("LHSSampler", "n=%d k=%d %s" % (n, k, batch),
                                (lambda smp=smp, prm=prm: smp.sample_points(prm)), prm, True, deviate=(n in dev_ns))
                if k <= 1 and n in (3, 7):
                    for cls, cname, kw in ((S.AdaptiveThresholdRejectionSampler, "AdaptiveThreshold", {"resample_ratio": 0.5}),
                                           (S.AdaptiveRandomRejectionSampler, "AdaptiveRandom", {})):
                        # the parameter row changes between the calls (all admissible single rows in turn)
                        seq = [prm]
                        if fv and k == 1:
                            others = [th for th in ok_thetas if [th[v] for v in fv] != [batch[v][0] for v in fv]]
                            seq += [Bd.params_points({v: [th[v]] for v in fv}) for th in others[:2]]
                        while len(seq) < 3:
                            seq.append(seq[-1])

                        def hist(cls=cls, kw=kw, n=n, seq=seq):
                            smp = cls(Bd.build_tp(a), n_points=n, **kw)
                            outs = []
                            p = smp.sample_points(None, seq[0])
                            outs.append(Points(p.as_tensor.clone(), p.space))
                            m = len(p)
                            for loss, q in zip((torch.arange(m, dtype=torch.float32), torch.arange(m, 0, -1, dtype=torch.float32)), seq[1:]):
                                p = smp.sample_points(loss.reshape(-1), q)
                                outs.append(Points(p.as_tensor.clone(), p.space))
                            return outs
                        execute(cname, "n=%d k=%d %s history=3 calls" % (n, k, batch), hist, prm, True, deviate=(n == 3))
                if a["k"] == "interval":
                    for expo in (2.0, 0.5):
                        smp = S.ExponentialIntervalSampler(Bd.build_tp(a), n_points=n, exponent=expo)
                        execute("ExponentialIntervalSampler", "n=%d exp=%g k=%d %s" % (n, expo, k, batch),
                                (lambda smp=smp, prm=prm: smp.sample_points(prm)), prm, True, deviate=False)
        return res
    return res
