"""Long-lived forked workers.  Work items are JSON-able descriptors; the worker function is
looked up by module name so nothing but plain data crosses the pipe."""
import importlib
import multiprocessing as mp
import os
import signal
import sys
import time
import traceback


def _init():
    import torch
    torch.set_num_threads(1)
    signal.signal(signal.SIGINT, signal.SIG_IGN)


class ItemTimeout(Exception):
    pass


def _alarm(signum, frame):
    raise ItemTimeout()


def _work(args):
    modname, idx, item, limit = args
    mod = importlib.import_module(modname)
    t0 = time.time()
    real_stdout = sys.stdout
    sys.stdout = open(os.devnull, "w")      # the library prints debug timings; workers report through results only
    try:
        if limit:
            signal.signal(signal.SIGALRM, _alarm)
            signal.alarm(int(limit))
        try:
            res = mod.run_item(item)
        finally:
            if limit:
                signal.alarm(0)
    except ItemTimeout:
        res = {"evals": 0, "violations": [{
            "key": "%s|harness-timeout|%s" % (getattr(mod, "PROP", "?"), item.get("name", idx)),
            "what": "work item did not terminate within %ss (item %r)" % (limit, item.get("name", idx)),
            "detail": {"item": item}}]}
    except BaseException as e:  # a crash of the driver itself is never silently dropped
        res = {"evals": 0, "violations": [{
            "key": "%s|harness-error|%s" % (getattr(mod, "PROP", "?"), type(e).__name__),
            "what": "driver crashed on item %r: %s" % (item.get("name", idx), e),
            "detail": {"item": item, "traceback": traceback.format_exc()[-3000:]}}]}
    sys.stdout.close()
    sys.stdout = real_stdout
    res["_idx"] = idx
    res["_wall"] = time.time() - t0
    return res


def run_items(modname, items, workers=None, limit=None, progress=True):
    """Run mod.run_item(item) for every item; returns results ordered by item index."""
    workers = workers or int(os.environ.get("TPMC_WORKERS", "16"))
    workers = max(1, min(workers, len(items)))
    jobs = [(modname, i, it, limit) for i, it in enumerate(items)]
    out = [None] * len(items)
    if workers == 1:
        _init()
        for j in jobs:
            r = _work(j)
            out[r["_idx"]] = r
        return out
    ctx = mp.get_context("fork")
    with ctx.Pool(workers, initializer=_init) as pool:
        done = 0
        t0 = time.time()
        last = t0
        for r in pool.imap_unordered(_work, jobs, chunksize=1):
            out[r["_idx"]] = r
            done += 1
            if progress and time.time() - last > 30:
                last = time.time()
                print("  .. %d/%d items, %.0fs" % (done, len(items), last - t0), file=sys.stderr, flush=True)
        pool.close()
        pool.join()        # workers leave through their normal exit path
    return out
