"""The randomness seam: every call the library makes to torch's random source is a choice point
answered from a script.  Default answer NET = rows of an unscrambled Sobol sequence (deterministic,
equidistributed); deviations ZERO / ONE / HALF and explicit permutations.

Nothing in /repo is changed: torch.rand, torch.rand_like, torch.randperm and torch.normal are
monkeypatched for the duration of a `with Seam(...)` block.  Any other draw from the global generator
is detected by comparing torch.get_rng_state() before/after."""
import math
import numpy as np
import torch

_ORIG = {}
_D = 48                      # Sobol dimensions in the table; further coordinates wrap with an index shift
_TABLES = {}
ONE = 1.0 - 2.0 ** -24       # largest float32 below 1


def _table(n, block=0):
    """first n points (index 0 skipped) of the fixed-seed scrambled Sobol sequence in _D dims, float64.
    `block` selects an independently scrambled copy (fixed seed per block): coordinates beyond the first _D
    come from further blocks, so no (index, coordinate) pair is ever reused and memory stays bounded."""
    size = 64
    while size < n + 1:
        size *= 2
    key = (size, block)
    if key not in _TABLES:
        # Owen-scrambled with a FIXED seed: still a deterministic (t,m,s)-net (every elementary dyadic box of
        # volume 2^-m is hit equally often), but without the poor low-order projections between far-apart
        # coordinates of the unscrambled sequence (which showed up as artefacts in rejection loops)
        st = torch.get_rng_state()
        eng = torch.quasirandom.SobolEngine(_D, scramble=True, seed=20260927 + 7919 * block)
        tab = eng.draw(size + 1, dtype=torch.float64)[1:]
        torch.set_rng_state(st)
        if len(_TABLES) > 96:                      # bounded cache (oldest entries first)
            for k in list(_TABLES)[:32]:
                del _TABLES[k]
        _TABLES[key] = tab
    return _TABLES[key][:n]


_BIG = 1 << 17


def net(rows, col0, cols):
    """rows x cols block: Sobol points 1..rows, coordinates col0..col0+cols-1 (block = coordinate // _D).
    Draws of more than 2^17 rows (only reached inside run-away rejection loops) are answered from a private,
    seeded generator instead of a 48-dimensional table of that length: still deterministic, bounded memory."""
    if rows > _BIG:
        g = torch.Generator().manual_seed(20260927 + 1000003 * col0 + rows)
        return _ORIG.get("rand", torch.rand)(rows, cols, generator=g, dtype=torch.float64)   # the un-patched function
    out = torch.empty(rows, cols, dtype=torch.float64)
    for j in range(cols):
        block, dim = divmod(col0 + j, _D)
        out[:, j] = _table(rows, block)[:, dim]
    return out


class SeamBudget(Exception):
    """more random draws than the budget: the sampling call is treated as non-terminating"""


class Seam:
    def __init__(self, script=None, budget=4000, elem_budget=5_000_000):
        self.script = dict(script or {})     # call index -> 'ZERO' | 'ONE' | 'HALF' | ('PERM', [..])
        self.budget = budget
        self.elem_budget = elem_budget
        self.calls = []                      # (kind, rows, cols, answer)
        self.coord = {}                      # rows -> next Sobol coordinate
        self.elems = 0

    # ---- answers -------------------------------------------------------------------------
    def _uniform(self, shape, dtype):
        shape = tuple(int(s) for s in shape)
        idx = len(self.calls)
        if idx >= self.budget:
            raise SeamBudget("more than %d random draws" % self.budget)
        numel = 1
        for s in shape:
            numel *= s
        self.elems += numel
        if self.elems > self.elem_budget:
            raise SeamBudget("more than %d random numbers drawn" % self.elem_budget)
        if len(shape) == 0:
            rows, cols = 1, 1
        elif len(shape) == 1:
            rows, cols = shape[0], 1
        else:
            cols = shape[-1]
            rows = numel // cols if cols else 0
        mode = self.script.get(idx, "NET")
        self.calls.append(("rand", rows, cols, mode if isinstance(mode, str) else "PERM"))
        if numel == 0:
            return torch.empty(shape, dtype=dtype or torch.float32)
        if mode == "NET":
            # one global coordinate counter: no (index, coordinate) pair of the sequence is ever handed out
            # twice, so separate draws are mutually equidistributed; consecutive calls with the same row count
            # are further coordinates of the same points (r and phi of a disc, the 5-D point of a union, ...)
            c0 = self.coord.get("all", 0)
            self.coord["all"] = c0 + cols
            u = net(rows, c0, cols)
        elif mode == "ZERO":
            u = torch.zeros(rows, cols, dtype=torch.float64)
        elif mode == "ONE":
            u = torch.full((rows, cols), ONE, dtype=torch.float64)
        elif mode == "HALF":
            u = torch.full((rows, cols), 0.5, dtype=torch.float64)
        else:
            raise ValueError("bad script entry %r for rand" % (mode,))
        u = u.to(dtype or torch.float32)
        # float32 rounding may reach 1.0; torch.rand never returns 1
        u = torch.clamp(u, max=ONE if u.dtype == torch.float32 else 1 - 2.0 ** -53)
        return u.reshape(shape)

    def rand(self, *size, **kw):
        if len(size) == 1 and isinstance(size[0], (tuple, list, torch.Size)):
            size = tuple(size[0])
        kw.pop("generator", None)
        dtype = kw.pop("dtype", None)
        kw.pop("device", None)
        rg = kw.pop("requires_grad", False)
        kw.pop("layout", None)
        kw.pop("pin_memory", None)
        out = self._uniform(size, dtype)
        if rg:
            out.requires_grad_(True)
        return out

    def rand_like(self, t, **kw):
        dtype = kw.pop("dtype", None) or t.dtype
        return self._uniform(tuple(t.shape), dtype)

    def randperm(self, n, **kw):
        idx = len(self.calls)
        if idx >= self.budget:
            raise SeamBudget("more than %d random draws" % self.budget)
        mode = self.script.get(idx, "NET")
        self.calls.append(("randperm", int(n), 1, mode if isinstance(mode, str) else "PERM"))
        if mode == "NET":
            # default answer: a fixed quasi-random permutation (ranks of the next net coordinate); "ID" must be asked for
            c0 = self.coord.get("all", 0)
            self.coord["all"] = c0 + 1
            p = torch.argsort(net(int(n), c0, 1)[:, 0]).tolist() if n else []
        elif mode == "ID":
            p = list(range(n))
        elif mode == "REV":
            p = list(range(n))[::-1]
        elif mode == "ROT":
            p = list(range(1, n)) + [0] if n else []
        elif isinstance(mode, (tuple, list)) and mode[0] == "PERM":
            p = list(mode[1])
            assert sorted(p) == list(range(n)), "scripted permutation has wrong length"
        else:
            raise ValueError("bad script entry %r for randperm" % (mode,))
        return torch.tensor(p, dtype=torch.int64)

    def normal(self, mean, std, *a, **kw):
        if not isinstance(mean, torch.Tensor):
            return _ORIG["normal"](mean, std, *a, **kw)  # not used by the library
        if not isinstance(std, torch.Tensor):
            std = torch.full_like(mean, float(std))
        shape = torch.broadcast_shapes(mean.shape, std.shape)
        u = self._uniform(shape, torch.float64)
        u = torch.clamp(u, 2.0 ** -30, 1 - 2.0 ** -30)
        z = math.sqrt(2.0) * torch.erfinv(2 * u - 1)
        return (mean.to(torch.float64) + std.to(torch.float64) * z).to(mean.dtype)

    def np_random(self, size=None):
        """stand-in for numpy.random.Generator.random as used by trimesh.sample (float64)"""
        if size is None:
            return float(self._uniform((1,), torch.float64)[0])
        shape = (int(size),) if not isinstance(size, (tuple, list)) else tuple(int(s) for s in size)
        # trimesh asks for (count, 2, 1): one net point per sample, its trailing axes are further coordinates
        flat = (shape[0], int(np.prod(shape[1:]))) if len(shape) > 2 else shape
        return self._uniform(flat, torch.float64).numpy().copy().reshape(shape)

    # ---- patching ------------------------------------------------------------------------
    def __enter__(self):
        assert not _ORIG, "seam already active"
        _ORIG.update(rand=torch.rand, rand_like=torch.rand_like, randperm=torch.randperm,
                     normal=torch.normal)
        self._state = torch.get_rng_state()
        torch.rand, torch.rand_like, torch.randperm, torch.normal = (
            self.rand, self.rand_like, self.randperm, self.normal)
        # trimesh's samplers (TrimeshPolyhedron) draw from a numpy generator obtained through this one function
        try:
            import trimesh.sample as ts
            _ORIG["trimesh_rg"] = ts.random_generator
            seam = self

            class _Gen:
                random = staticmethod(seam.np_random)
            ts.random_generator = lambda seed=None: _Gen()
        except Exception:          # trimesh not installed: nothing to own
            pass
        return self

    def __exit__(self, *exc):
        torch.rand, torch.rand_like, torch.randperm, torch.normal = (
            _ORIG["rand"], _ORIG["rand_like"], _ORIG["randperm"], _ORIG["normal"])
        if "trimesh_rg" in _ORIG:
            import trimesh.sample as ts
            ts.random_generator = _ORIG["trimesh_rg"]
        _ORIG.clear()
        self.leaked = not torch.equal(self._state, torch.get_rng_state())
        return False


def explore_deviations(run, bound, menu=("ZERO", "ONE", "HALF"), max_points=12):
    """The deviation-bounded recursion of the brief, for a deterministic harness.
    run(script) -> (calls, result): executes the harness once under `script` (to completion) and
    returns the list of choice points it met.  Yields (script, result) for every script with
    <= bound deviations from the default answer.  A deviation may change the number of later
    choice points, so the continuation is taken from the execution that contains the deviation.
    Only the first `max_points` choice points of an execution are deviated (stated in evidence)."""
    def rec(script, start, left):
        calls, res = run(script)
        yield dict(script), res
        if left == 0:
            return
        for i in range(start, min(len(calls), max_points)):
            kind = calls[i][0]
            alts = menu if kind == "rand" else ("REV", "ROT")
            for alt in alts:
                s2 = dict(script)
                s2[i] = alt
                yield from rec(s2, i + 1, left - 1)
    yield from rec({}, 0, bound)
