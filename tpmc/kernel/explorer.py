"""Explicit-state breadth-first exploration of operation histories.

A state IS the history that reaches it: live torch objects do not copy reliably, so every state is
rebuilt by replaying its history on fresh real objects next to a boring reference model.
    system.initial()            -> list of initial descriptors
    system.enabled(model_state) -> list of JSON-able operations enabled in that (model) state
    system.build(init, hist)    -> (real_state, model_state, verdicts)  replaying hist from init, where
                                   verdicts is a list of (key, what) mismatches found while replaying the LAST step
    system.canon(model_state)   -> hashable canonical form (property-relevant fields only)
Returns statistics; mismatches are handed to on_violation(key, what, init, hist)."""
import collections


def bfs(system, depth, on_violation, max_states=None):
    seen = set()
    transitions = executions = 0
    maxdepth = 0
    outcomes = set()
    frontier = collections.deque()
    for init in system.initial():
        real, model, verdicts = system.build(init, [])
        executions += 1
        for key, what in verdicts:
            on_violation(key, what, init, [])
        k = system.canon(model)
        if k not in seen:
            seen.add(k)
            frontier.append((init, [], model))
    capped = False
    while frontier:
        init, hist, model = frontier.popleft()
        if len(hist) >= depth:
            continue
        for op in system.enabled(model):
            h2 = hist + [op]
            real, m2, verdicts = system.build(init, h2)
            executions += 1
            transitions += 1
            for key, what in verdicts:
                on_violation(key, what, init, h2)
            if m2 is None:         # the step was (correctly) rejected or failed: no successor state
                outcomes.add(("rejected", str(op)[:40]))
                continue
            k = system.canon(m2)
            outcomes.add(k)
            if k not in seen:
                if max_states and len(seen) >= max_states:
                    capped = True
                    continue
                seen.add(k)
                maxdepth = max(maxdepth, len(h2))
                frontier.append((init, h2, m2))
    return {"states": len(seen), "transitions": transitions, "executions": executions, "max_depth": maxdepth,
            "outcomes": len(outcomes), "capped": capped}
